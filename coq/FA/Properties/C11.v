(* C11 - Streams are immutable values.
   Only statements here; proofs live in Proofs/HeapFacts.v and Proofs/StreamFrame.v.
   [run_prefix ops i] is the state after the first i operations of the history [ops] (Model/Stream.v):
   datasets, ObjectStream(...), Select/SelectMany/Where, MetaData, QMetaData, As* terminals, value_async split
   at its await into ValueStart/ValueFinish.  [obs st s] = (ast.dump of stream s's query AST, its item type). *)
From Coq Require Import String List Arith.
From FA.Model Require Import Heap Stream.
From FA.Proofs Require Import HeapFacts StreamFrame StreamExamples.
From FA.Gen Require TablesCopy.
From FA.Model Require CopyTree.
From FA.Proofs Require CopyTreeFacts CopyTreeStore CopyTreeFresh.
Import ListNotations.
Open Scope list_scope.
Open Scope nat_scope.

(* for every history, every two points i <= j of it and every stream s that exists at point i:
   what is observed on s at point j is what was observed at point i - whatever happened in between
   (derivations from s or from its relatives, on any dataset; value calls, also on s itself) *)
Theorem streams_immutable : forall ops i j s, i <= j -> live (run_prefix ops i) s ->
  obs (run_prefix ops j) s = obs (run_prefix ops i) s.
Proof. exact StreamFrame.streams_immutable. Qed.
Print Assumptions streams_immutable.

(* the same for the full object graph below the stream's root: every node keeps its non-field attributes
   (executor, dataset object, query metadata) *)
Theorem streams_immutable_full : forall ops i j s, i <= j -> live (run_prefix ops i) s ->
  obs_full (run_prefix ops j) s = obs_full (run_prefix ops i) s.
Proof. exact StreamFrame.streams_immutable_full. Qed.
Print Assumptions streams_immutable_full.

(* the frame invariant it rests on: a step only extends the heap of node objects (no field or attribute of an
   object allocated earlier is written) and only appends to the stream table *)
Theorem step_frame : forall st o st' out, wf st -> step st o = (st', out) ->
  (exists e, heap_ st' = e ++ heap_ st) /\ (exists new, streams st' = streams st ++ new) /\ wf st'.
Proof.
  intros st o st' out Hwf H. destruct (StreamFrame.step_frame st o st' out Hwf H) as [[Hx Hs] Hw].
  split; [exact Hx|]. split; [exact Hs|exact Hw].
Qed.
Print Assumptions step_frame.

(* remove_empty_metadata writes no object that existed before the call (also C15's "input unmodified") *)
Theorem remove_preserves_input : forall h a h' v, remove_empty_h h a = Ok (h', v) ->
  forall b, b < length h -> hget h' b = hget h b /\ unfold h' b = unfold h b /\ abs h' b = abs h b.
Proof. exact StreamFrame.remove_preserves_input. Qed.
Print Assumptions remove_preserves_input.

(* streams, once created, stay *)
Theorem live_mono : forall ops i j s, i <= j -> live (run_prefix ops i) s -> live (run_prefix ops j) s.
Proof. exact StreamFrame.live_mono. Qed.
Print Assumptions live_mono.

(* ---------- a lambda handed over as an ast object (parse_as_ast's copy, F52/F57; Model/CopyTree.v) ----------
   The stream model takes the processed lambda as an input; what protects the CALLER's tree - and with it every stream that was
   built from the same tree, or from whose query the tree was taken - from the passes that edit their input in place is the copy
   util_ast._copy_of_tree makes first.  Node objects are identities; [attached t] are the objects at or below a node that carries
   a dataset, an executor or query metadata (another stream's nodes, deliberately shared). *)
Theorem lambda_copy_is_the_same_query : forall t n,
  CopyTree.erase (fst (CopyTree.copy t n)) = CopyTree.erase t /\ CopyTree.attrs_pre (fst (CopyTree.copy t n)) = CopyTree.attrs_pre t.
Proof. exact CopyTreeFacts.copy_same_shape. Qed.
Print Assumptions lambda_copy_is_the_same_query.

Theorem lambda_copy_objects_are_new_or_another_streams : forall t n i,
  In i (CopyTree.ids (fst (CopyTree.copy t n))) -> (n <= i < snd (CopyTree.copy t n)) \/ In i (CopyTree.attached t).
Proof. exact CopyTreeFacts.copy_new_or_attached. Qed.
Print Assumptions lambda_copy_objects_are_new_or_another_streams.

Theorem lambda_copy_isolates_the_callers_tree : forall t n,
  (forall i, In i (CopyTree.ids t) -> i < n) ->
  forall i, In i (CopyTree.ids t) -> ~ In i (CopyTree.attached t) -> ~ In i (CopyTree.ids (fst (CopyTree.copy t n))).
Proof. exact CopyTreeFacts.copy_isolates. Qed.
Print Assumptions lambda_copy_isolates_the_callers_tree.

(* what the isolation buys: in a store of node objects that holds the caller's tree, any number of writes of anything to the
   objects the copy owns (reachable from the copy, not another stream's) leaves the caller's tree held as before, object for object *)
Theorem edits_of_the_copy_keep_the_callers_tree : forall t n ws st,
  (forall i, In i (CopyTree.ids t) -> i < n) ->
  CopyTreeStore.holds st t ->
  (forall j v, In (j, v) ws -> In j (CopyTree.ids (fst (CopyTree.copy t n))) /\ ~ In j (CopyTree.attached t)) ->
  CopyTreeStore.holds (CopyTreeStore.writes st ws) t.
Proof. exact CopyTreeStore.edits_of_the_copys_own_objects_keep_the_callers_tree. Qed.
Print Assumptions edits_of_the_copy_keep_the_callers_tree.

Example edits_of_the_copy_example :
  CopyTreeStore.holds CopyTreeStore.ex_store CopyTreeFacts.ex_lambda /\
  CopyTreeStore.holds (CopyTreeStore.writes CopyTreeStore.ex_store
     [(12, ("Call", ["_old_ast"], [13; 17; 18])); (14, ("Call", [], [15; 19]))]%string) CopyTreeFacts.ex_lambda.
Proof. exact CopyTreeStore.ex_store_holds. Qed.

(* the copy is a tree of its own: the objects it creates ([own]: everything of the result that is not at or below another
   stream's node) are exactly the counter values it used, once each, in preorder - no object of the copy sits in two places, so an
   edit of one node of the copy changes one position of the copied lambda only *)
Theorem lambda_copy_creates_each_object_once : forall t n,
  CopyTreeFresh.own (fst (CopyTree.copy t n)) = seq n (snd (CopyTree.copy t n) - n) /\
  NoDup (CopyTreeFresh.own (fst (CopyTree.copy t n))).
Proof. exact CopyTreeFresh.copy_creates_each_object_once. Qed.
Print Assumptions lambda_copy_creates_each_object_once.

Theorem tree_objects_are_own_or_another_streams : forall t i,
  In i (CopyTree.ids t) <-> In i (CopyTreeFresh.own t) \/ In i (CopyTree.attached t).
Proof. exact CopyTreeFresh.ids_own_or_attached. Qed.
Print Assumptions tree_objects_are_own_or_another_streams.

(* the other streams' nodes reachable from the copy are those reachable from the caller's tree: the same objects, all of them, in
   the same order - a back end that walks the copied lambda finds the datasets, executors and metadata it would have found *)
Theorem lambda_copy_keeps_every_other_streams_node : forall t n,
  CopyTree.attached (fst (CopyTree.copy t n)) = CopyTree.attached t.
Proof. exact CopyTreeFresh.copy_keeps_all_attached. Qed.
Print Assumptions lambda_copy_keeps_every_other_streams_node.

Example lambda_copy_own_objects :
  CopyTreeFresh.own (fst (CopyTree.copy CopyTreeFacts.ex_lambda 9)) = [9; 10; 11; 12; 13; 14; 15; 16; 17] /\
  CopyTreeFresh.own (fst (CopyTree.copy CopyTreeFacts.ex_query_in_lambda 6)) = [6; 7; 8].
Proof. exact CopyTreeFresh.own_of_copies. Qed.

(* the test F52 shipped with (ANY non-field attribute keeps the node) hands the caller's own default-filled call on: refuted *)
Theorem any_attribute_keep_test_refuted :
  In 3 (CopyTree.ids CopyTreeFacts.ex_lambda) /\ ~ In 3 (CopyTree.attached CopyTreeFacts.ex_lambda) /\
  In 3 (CopyTree.ids (fst (CopyTree.copy_any CopyTreeFacts.ex_lambda 9))) /\
  In 7 (CopyTree.ids (fst (CopyTree.copy_any CopyTreeFacts.ex_lambda 9))).
Proof. exact CopyTreeFacts.any_attribute_test_refuted. Qed.

(* the attribute names: what the copy looks for is exactly what a dataset root and a QMetaData node carry *)
Example copy_tables_pinned :
  In TablesStream.executor_attr_name TablesCopy.stream_node_attributes /\
  incl TablesCopy.dataset_node_attributes TablesCopy.stream_node_attributes /\
  incl TablesCopy.qmetadata_node_attributes TablesCopy.stream_node_attributes /\
  length TablesCopy.stream_node_attributes = 1 + length TablesCopy.dataset_node_attributes + length TablesCopy.qmetadata_node_attributes /\
  existsb (String.eqb "_old_ast"%string) TablesCopy.stream_node_attributes = false.
Proof.
  split; [vm_compute; tauto|]. split; [intros x Hx; vm_compute in Hx; vm_compute; tauto|].
  split; [intros x Hx; vm_compute in Hx; vm_compute; tauto|]. split; reflexivity.
Qed.

Example lambda_copy_examples :
  ((forall i, In i (CopyTree.ids CopyTreeFacts.ex_lambda) -> i < 9) /\ CopyTree.attached CopyTreeFacts.ex_lambda = [] /\
   CopyTree.ids (fst (CopyTree.copy CopyTreeFacts.ex_lambda 9)) = [9; 10; 11; 12; 13; 14; 15; 16; 17] /\
   CopyTree.erase (fst (CopyTree.copy CopyTreeFacts.ex_lambda 9)) = CopyTree.erase CopyTreeFacts.ex_lambda) /\
  (CopyTree.attached CopyTreeFacts.ex_query_in_lambda = [3; 4; 5] /\
   CopyTree.ids (fst (CopyTree.copy CopyTreeFacts.ex_query_in_lambda 6)) = [6; 7; 8; 3; 4; 5]).
Proof. split; [exact CopyTreeFacts.copy_of_processed_lambda | exact CopyTreeFacts.copy_keeps_other_streams_nodes]. Qed.

(* the tables the model reads from the source: the attribute name, and that every operator node gets the AST of
   the stream it is applied to (or of the stream the callbacks returned) as its FIRST argument *)
Example tables_pinned :
  TablesStream.executor_attr_name = "_func_adl_executor"%string /\
  map (fun x => (fst (fst x), snd (fst x))) TablesStream.operator_nodes =
    [("SelectMany", "SelectMany"); ("Select", "Select"); ("Where", "Where"); ("MetaData", "MetaData")]%string /\
  forallb (fun x => existsb (String.eqb (hd ""%string (snd x)))
                      ["n_stream.query_ast"; "self._q_ast"; "self.query_ast"]%string) TablesStream.operator_nodes = true.
Proof. repeat split; reflexivity. Qed.

(* non-vacuity: in hist1 (two datasets, branching, empty wrappers from MetaData and from callbacks, query
   metadata, terminals, three interleaved value calls) stream 2 exists after 3 operations, shares its parent's
   objects, is executed at operation 8 with two empty wrappers removed from what the executor receives - and
   is observed unchanged at the end *)
Example immutable_hist1 :
  live (run_prefix hist1 3) 2 /\
  (exists t ty, obs (run_prefix hist1 3) 2 = Some (Some t, ty)) /\
  obs (run_prefix hist1 18) 2 = obs (run_prefix hist1 3) 2 /\
  (exists e t title, nth_error (log (run_prefix hist1 8)) 0 = Some (e, Some t, title) /\
                     Some (Some t, "Jet"%string) <> obs (run_prefix hist1 8) 2) /\
  length (streams (run_prefix hist1 18)) = 11.
Proof.
  split; [vm_compute; repeat constructor|].
  split; [vm_compute; eexists; eexists; reflexivity|].
  split; [vm_compute; reflexivity|].
  split; [|vm_compute; reflexivity].
  vm_compute. eexists; eexists; eexists. split; [reflexivity|]. intros H; discriminate H.
Qed.

(* siblings: s2 and s4 both derive from s1; deriving and executing one leaves the other as it was *)
Example siblings_independent :
  obs (run_prefix hist1 18) 4 = obs (run_prefix hist1 5) 4 /\ obs (run_prefix hist1 18) 1 = obs (run_prefix hist1 2) 1.
Proof. split; vm_compute; reflexivity. Qed.

(* C11 - Streams are immutable values.
   Only statements here; proofs live in Proofs/HeapFacts.v and Proofs/StreamFrame.v.
   [run_prefix ops i] is the state after the first i operations of the history [ops] (Model/Stream.v):
   datasets, ObjectStream(...), Select/SelectMany/Where, MetaData, QMetaData, As* terminals, value_async split
   at its await into ValueStart/ValueFinish.  [obs st s] = (ast.dump of stream s's query AST, its item type). *)
From Coq Require Import String List Arith.
From FA.Model Require Import Heap Stream.
From FA.Proofs Require Import HeapFacts StreamFrame StreamExamples.
Import ListNotations.
Open Scope list_scope.
Open Scope nat_scope.

(* for every history, every two points i <= j of it and every stream s that exists at point i:
   what is observed on s at point j is what was observed at point i - whatever happened in between
   (derivations from s or from its relatives, on any dataset; value calls, also on s itself) *)
Theorem streams_immutable : forall ops i j s, i <= j -> live (run_prefix ops i) s ->
  obs (run_prefix ops j) s = obs (run_prefix ops i) s.
Proof. exact StreamFrame.streams_immutable. Qed.
Print Assumptions streams_immutable.

(* the same for the full object graph below the stream's root: every node keeps its non-field attributes
   (executor, dataset object, query metadata) *)
Theorem streams_immutable_full : forall ops i j s, i <= j -> live (run_prefix ops i) s ->
  obs_full (run_prefix ops j) s = obs_full (run_prefix ops i) s.
Proof. exact StreamFrame.streams_immutable_full. Qed.
Print Assumptions streams_immutable_full.

(* the frame invariant it rests on: a step only extends the heap of node objects (no field or attribute of an
   object allocated earlier is written) and only appends to the stream table *)
Theorem step_frame : forall st o st' out, wf st -> step st o = (st', out) ->
  (exists e, heap_ st' = e ++ heap_ st) /\ (exists new, streams st' = streams st ++ new) /\ wf st'.
Proof.
  intros st o st' out Hwf H. destruct (StreamFrame.step_frame st o st' out Hwf H) as [[Hx Hs] Hw].
  split; [exact Hx|]. split; [exact Hs|exact Hw].
Qed.
Print Assumptions step_frame.

(* remove_empty_metadata writes no object that existed before the call (also C15's "input unmodified") *)
Theorem remove_preserves_input : forall h a h' v, remove_empty_h h a = Ok (h', v) ->
  forall b, b < length h -> hget h' b = hget h b /\ unfold h' b = unfold h b /\ abs h' b = abs h b.
Proof. exact StreamFrame.remove_preserves_input. Qed.
Print Assumptions remove_preserves_input.

(* streams, once created, stay *)
Theorem live_mono : forall ops i j s, i <= j -> live (run_prefix ops i) s -> live (run_prefix ops j) s.
Proof. exact StreamFrame.live_mono. Qed.
Print Assumptions live_mono.

(* the tables the model reads from the source: the attribute name, and that every operator node gets the AST of
   the stream it is applied to (or of the stream the callbacks returned) as its FIRST argument *)
Example tables_pinned :
  TablesStream.executor_attr_name = "_func_adl_executor"%string /\
  map (fun x => (fst (fst x), snd (fst x))) TablesStream.operator_nodes =
    [("SelectMany", "SelectMany"); ("Select", "Select"); ("Where", "Where"); ("MetaData", "MetaData")]%string /\
  forallb (fun x => existsb (String.eqb (hd ""%string (snd x)))
                      ["n_stream.query_ast"; "self._q_ast"; "self.query_ast"]%string) TablesStream.operator_nodes = true.
Proof. repeat split; reflexivity. Qed.

(* non-vacuity: in hist1 (two datasets, branching, empty wrappers from MetaData and from callbacks, query
   metadata, terminals, three interleaved value calls) stream 2 exists after 3 operations, shares its parent's
   objects, is executed at operation 8 with two empty wrappers removed from what the executor receives - and
   is observed unchanged at the end *)
Example immutable_hist1 :
  live (run_prefix hist1 3) 2 /\
  (exists t ty, obs (run_prefix hist1 3) 2 = Some (Some t, ty)) /\
  obs (run_prefix hist1 18) 2 = obs (run_prefix hist1 3) 2 /\
  (exists e t title, nth_error (log (run_prefix hist1 8)) 0 = Some (e, Some t, title) /\
                     Some (Some t, "Jet"%string) <> obs (run_prefix hist1 8) 2) /\
  length (streams (run_prefix hist1 18)) = 11.
Proof.
  split; [vm_compute; repeat constructor|].
  split; [vm_compute; eexists; eexists; reflexivity|].
  split; [vm_compute; reflexivity|].
  split; [|vm_compute; reflexivity].
  vm_compute. eexists; eexists; eexists. split; [reflexivity|]. intros H; discriminate H.
Qed.

(* siblings: s2 and s4 both derive from s1; deriving and executing one leaves the other as it was *)
Example siblings_independent :
  obs (run_prefix hist1 18) 4 = obs (run_prefix hist1 5) 4 /\ obs (run_prefix hist1 18) 1 = obs (run_prefix hist1 2) 1.
Proof. split; vm_compute; reflexivity. Qed.

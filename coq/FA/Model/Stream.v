(* ObjectStream / EventDataset as a state machine over the heap of AST node objects
   (func_adl/object_stream.py, event_dataset.py, ast/meta_data.py as of /repo HEAD: copy-on-write cleaner,
   merging QMetaData).  Properties C11, C12, C16.  No proofs in this file.

   Read-only visitors of the code (lookup_query_metadata's _finder, find_EventDataset's ds_finder, the
   args[0] walk of _get_executor, literal_eval's shape test) see the object graph below a stream's root as a
   tree; they are structural recursions over its unfolding ([Heap.unfold], an [atree] that keeps every node's
   non-field attributes).  The one visitor that builds objects, remove_empty_metadata's _cleaner, copies
   EVERY node it visits (copy.copy keeps __dict__, list fields are re-created) and rebuilds the parents from
   the visited children: [remove_empty_h] = allocate a fresh copy of [clean (unfold h root)].  (The real
   cleaner also allocates copies of the wrappers it then drops; those objects are unreachable.) *)
From Coq Require Import String List Arith Bool.
From FA.Gen Require Import TablesStream.
From FA.Model Require Import Heap.
Import ListNotations.
Open Scope string_scope.

(* ---------------------------------------------------------------- shapes *)
Definition is_name {X} (t : gtree X) (id : string) : bool :=
  match t with
  | G _ cls fs =>
      String.eqb cls "Name" &&
      match get_field "id" fs with
      | Some (KOne, [Leaf (AStr s)]) => String.eqb s id
      | _ => false
      end
  | Leaf _ => false
  end.

(* isinstance(n.func, ast.Name) and n.func.id == id   (fields of a Call node) *)
Definition func_is {X} (fs : list (string * fkind * list (gtree X))) (id : string) : bool :=
  match get_field "func" fs with
  | Some (KOne, [f]) => is_name f id
  | _ => false
  end.

(* ---------------------------------------------------------------- ast.literal_eval, as far as the cleaner needs it *)
Inductive litc := LEmptyDict | LOk | LBad.   (* == {}  |  some other value  |  raises ValueError *)

Definition is_num_atom (a : atom) : bool :=
  match a with
  | ARaw s => String.prefix "i:" s || String.prefix "f:" s || String.prefix "x:" s
  | AStr _ => false
  end.

Definition is_node {X} (t : gtree X) : bool := match t with G _ _ _ => true | Leaf _ => false end.

(* modelled fragment of the literal grammar: constants, tuples, lists, dicts, signed numbers.
   (Set displays, set(), complex a+bj and unhashable dict keys are outside the fragment.) *)
Fixpoint lit_ok {X} (t : gtree X) : bool :=
  match t with
  | Leaf _ => false
  | G _ cls fs =>
      if String.eqb cls "Constant" then true
      else if String.eqb cls "Tuple" || String.eqb cls "List" then
        forallb (fun fl => if String.eqb (fst (fst fl)) "elts" then forallb lit_ok (snd fl) else true) fs
      else if String.eqb cls "Dict" then
        forallb (fun fl => if String.eqb (fst (fst fl)) "keys" || String.eqb (fst (fst fl)) "values"
                           then forallb lit_ok (snd fl) else true) fs
        && match get_field "keys" fs, get_field "values" fs with
           | Some (KList, ks), Some (KList, vs) => Nat.eqb (length ks) (length vs)
           | _, _ => false
           end
      else if String.eqb cls "UnaryOp" then
        match get_field "op" fs, get_field "operand" fs with
        | Some (KOne, [Leaf (ARaw o)]), Some (KOne, [G _ c cfs]) =>
            (String.eqb o "c:USub" || String.eqb o "c:UAdd") && String.eqb c "Constant" &&
            match get_field "value" cfs with Some (KOne, [Leaf a]) => is_num_atom a | _ => false end
        | _, _ => false
        end
      else false
  end.

Definition lit_class {X} (t : gtree X) : litc :=
  match t with
  | G _ cls fs =>
      if String.eqb cls "Dict" then
        match get_field "keys" fs, get_field "values" fs with
        | Some (KList, []), Some (KList, []) => LEmptyDict
        | _, _ => if lit_ok t then LOk else LBad
        end
      else if lit_ok t then LOk else LBad
  | Leaf _ => LBad
  end.

(* ---------------------------------------------------------------- remove_empty_metadata._cleaner *)
Fixpoint seq_res {A} (l : list (res A)) : res (list A) :=
  match l with
  | [] => Ok []
  | Err e :: _ => Err e
  | Ok x :: r => match seq_res r with Ok r' => Ok (x :: r') | Err e => Err e end
  end.

(* visit_Call's test on the node rebuilt from the visited children *)
Definition md_wrapper {X} (fs : list (string * fkind * list (gtree X))) : option (gtree X * gtree X) :=
  if func_is fs "MetaData" then
    match get_field "args" fs with
    | Some (KList, [a0; a1]) => Some (a0, a1)
    | _ => None
    end
  else None.

Fixpoint clean {X} (t : gtree X) : res (gtree X) :=
  match t with
  | Leaf a => Ok (Leaf a)
  | G x cls fs =>
      match seq_res (map (fun fl => match seq_res (map clean (snd fl)) with
                                    | Ok ks => Ok (fst fl, ks)
                                    | Err e => Err e
                                    end) fs) with
      | Err e => Err e
      | Ok fs' =>
          if String.eqb cls "Call" then
            match md_wrapper fs' with
            | Some (a0, a1) =>
                match lit_class a1 with
                | LEmptyDict => Ok a0
                | LOk => Ok (G x cls fs')
                | LBad => Err EValue
                end
            | None => Ok (G x cls fs')
            end
          else Ok (G x cls fs')
      end
  end.

(* remove_empty_metadata on the heap: a completely new object graph; the input objects are not written *)
Definition remove_empty_h (h : heap) (a : addr) : res (heap * hv) :=
  match unfold h a with
  | None => Err EDangling
  | Some t =>
      match clean t with
      | Err e => Err e
      | Ok t' => alloc [] (fresh_of t') h
      end
  end.

(* ---------------------------------------------------------------- lookup_query_metadata._finder *)
Definition qmd_of (at_ : attrs) : list (string * atom) :=
  match assoc "_q_metadata" at_ with Some (AQmd d) => d | _ => [] end.

(* generic_visit: a node defining the key sets _found and is not descended into; every other node has ALL
   its children visited in field order.  The walk does not stop at the first hit: a later hit overwrites. *)
Fixpoint lookup_walk (k : string) (t : atree) (found : option atom) : option atom :=
  match t with
  | Leaf _ => found
  | G at_ _ fs =>
      match assoc k (qmd_of at_) with
      | Some v => Some v
      | None => fold_left (fun acc fl => fold_left (fun acc kid => lookup_walk k kid acc) (snd fl) acc) fs found
      end
  end.
Definition lookup_t (k : string) (t : atree) : option atom := lookup_walk k t None.

(* ---------------------------------------------------------------- find_EventDataset.ds_finder *)
Fixpoint fr_walk {X} (t : gtree X) (st : res (option (gtree X))) : res (option (gtree X)) :=
  match st with
  | Err e => Err e
  | Ok ds =>
      match t with
      | Leaf _ => st
      | G _ cls fs =>
          if String.eqb cls "Call" && func_is fs "EventDataset" then
            match ds with Some _ => Err EManyRoots | None => Ok (Some t) end
          else fold_left (fun acc fl => fold_left (fun acc kid => fr_walk kid acc) (snd fl) acc) fs st
      end
  end.
Definition find_root {X} (t : gtree X) : res (gtree X) :=
  match fr_walk t (Ok None) with
  | Err e => Err e
  | Ok None => Err ENoRoot
  | Ok (Some n) => Ok n
  end.

(* number of EventDataset(...) calls the finder meets (it does not look inside one) *)
Fixpoint count_roots {X} (t : gtree X) : nat :=
  match t with
  | Leaf _ => 0
  | G _ cls fs =>
      if String.eqb cls "Call" && func_is fs "EventDataset" then 1
      else fold_left (fun acc fl => fold_left (fun acc kid => acc + count_roots kid) (snd fl) acc) fs 0
  end.

(* ---------------------------------------------------------------- ObjectStream._get_executor *)
Definition exec_of (at_ : attrs) : option exid :=
  match assoc executor_attr_name at_ with Some (AExec e) => Some e | _ => None end.

(* while not hasattr(node, attr): node = node.args[0] *)
Fixpoint exec_walk (t : atree) : res exid :=
  match t with
  | Leaf _ => Err EAttribute
  | G at_ _ fs =>
      match exec_of at_ with
      | Some e => Ok e
      | None =>
          (fix go (fs : list (string * fkind * list atree)) : res exid :=
             match fs with
             | [] => Err EAttribute
             | fl :: r =>
                 if String.eqb "args" (fst (fst fl)) then
                   match snd (fst fl), snd fl with
                   | KList, kid :: _ => exec_walk kid
                   | KList, [] => Err EIndex
                   | KOne, _ => Err EType
                   end
                 else go r
             end) fs
      end
  end.

(* ---------------------------------------------------------------- the streams *)
Record stream := mkstream { root : addr; ity : string }.
Inductive result := RRet (v : string) | RRaise (cls : string).
Record state := mkstate {
  heap_ : heap;
  streams : list stream;          (* stream id = position; append only *)
  nds : nat;                      (* datasets created so far *)
  log : list (exid * option tree * option string);   (* executor invocations, oldest first *)
  calls : list (option result)    (* value_async calls: pending | what the caller got *)
}.
Definition init : state := mkstate [] [] 0 [] [].

Inductive dkind := DSelect | DSelectMany | DWhere.
Definition dkind_method (k : dkind) : string :=
  match k with DSelect => "Select" | DSelectMany => "SelectMany" | DWhere => "Where" end.

Inductive op :=
  | NewDataset (ty : string)                                    (* MyDataset(item_type) *)
  | NewStream (t : itree) (ty : string)                         (* ObjectStream(an_ast, item_type) *)
  | Derive (s : nat) (k : dkind) (lam : itree) (cb_md : list itree) (rty : string)
      (* s.Select/SelectMany/Where(f): [lam] = the lambda as processed by remap_from_lambda, [cb_md] = the
         metadata the type-follower callbacks put on the stream first (innermost first), [rty] = the item
         type the code computes for the result (for Where: the lambda's return type) *)
  | MetaData (s : nat) (lit : itree)
  | QMetaData (s : nat) (kvs : list (string * atom))
  | Terminal (s : nat) (m : string) (lits : list (string * itree))   (* s.As*(...): literal per parameter *)
  | ValueStart (s : nat) (ov : option nat) (title : option string)    (* value_async up to its await *)
  | ValueFinish (c : nat) (r : result).                               (* the awaited executor call completes *)

Inductive out := OStream (sid : nat) | OCall (c : nat) | ODone (c : nat) (r : result) | OErr (e : err).

Definition any_ty : string := "typing.Any".
Definition bool_ty : string := "bool".

Definition lf (s : string) : itree := Leaf (AStr s).
(* util_ast.function_call(name, args) = ast.Call(ast.Name(name, ast.Load()), args, []) *)
Definition fcall (at_ : attrs) (name : string) (args : list itree) : itree :=
  G (INew at_) "Call"
    [("func", KOne, [G (INew []) "Name" [("id", KOne, [lf name]); ("ctx", KOne, [Leaf (ARaw "c:Load")])]]);
     ("args", KList, args);
     ("keywords", KList, [])].

Definition node_name (method : string) : res string :=
  match find (fun x => String.eqb method (fst (fst x))) operator_nodes with
  | Some x => Ok (snd (fst x))
  | None => Err EBadTree
  end.

Fixpoint seq_opt_res {A} (l : list (option A)) : res (list A) :=
  match l with
  | [] => Ok []
  | None :: _ => Err EBadTree
  | Some x :: r => match seq_opt_res r with Ok r' => Ok (x :: r') | Err e => Err e end
  end.

(* the tree a building operation allocates, and the item type of the stream it returns *)
Definition build (st : state) (o : op) : res (itree * string) :=
  match o with
  | NewDataset ty =>
      Ok (fcall [(executor_attr_name, AExec (EDs (nds st))); ("_eds_object", AEds (nds st))] "EventDataset" [], ty)
  | NewStream t ty => Ok (t, ty)
  | Derive s k lam cb_md rty =>
      match nth_error (streams st) s with
      | None => Err EBadStream
      | Some ps =>
          match node_name (dkind_method k), node_name "MetaData" with
          | Ok nm, Ok mdn =>
              let src := fold_left (fun acc md => fcall [] mdn [acc; md]) cb_md (G (IRef s) "" []) in
              match k with
              | DWhere => if String.eqb rty bool_ty then Ok (fcall [] nm [src; lam], ity ps) else Err EValue
              | _ => Ok (fcall [] nm [src; lam], rty)
              end
          | Err e, _ => Err e
          | _, Err e => Err e
          end
      end
  | MetaData s lit =>
      match nth_error (streams st) s with
      | None => Err EBadStream
      | Some ps =>
          match node_name "MetaData" with
          | Ok mdn => Ok (fcall [] mdn [G (IRef s) "" []; lit], ity ps)
          | Err e => Err e
          end
      end
  | Terminal s m lits =>
      match nth_error (streams st) s with
      | None => Err EBadStream
      | Some ps =>
          match find (fun x => String.eqb m (fst (fst x))) terminals with
          | None => Err EBadTree
          | Some x =>
              match seq_opt_res (map (fun p => assoc p lits) (snd x)) with
              | Ok args => Ok (fcall [] (snd (fst x)) (G (IRef s) "" [] :: args), any_ty)
              | Err e => Err e
              end
          end
      end
  | _ => Err EBadTree
  end.

(* which keys QMetaData really stores: not found, found None, or found with a different value *)
Definition qmd_added (t : atree) (kvs : list (string * atom)) : list (string * atom) :=
  filter (fun kv => match lookup_t (fst kv) t with
                    | None => true
                    | Some f => atom_eqb f none_atom || negb (atom_eqb f (snd kv))
                    end) kvs.
(* {**base, **new} *)
Definition dict_merge (base new : list (string * atom)) : list (string * atom) :=
  fold_left (fun d kv => assoc_set (fst kv) (snd kv) d) new base.

Definition add_stream (st : state) (h : heap) (s : stream) (nds' : nat) : state * out :=
  (mkstate h (streams st ++ [s]) nds' (log st) (calls st), OStream (length (streams st))).

Fixpoint set_nth {A} (l : list A) (n : nat) (x : A) : list A :=
  match l, n with
  | [], _ => []
  | _ :: r, 0 => x :: r
  | y :: r, S n' => y :: set_nth r n' x
  end.

Definition step (st : state) (o : op) : state * out :=
  let roots := map root (streams st) in
  match o with
  | QMetaData s kvs =>
      match nth_error (streams st) s with
      | None => (st, OErr EBadStream)
      | Some ps =>
          match unfold (heap_ st) (root ps), hget (heap_ st) (root ps) with
          | Some t, Some base =>
              match qmd_added t kvs with
              | [] => add_stream st (heap_ st) (mkstream (root ps) (ity ps)) (nds st)
              | added =>
                  match hcopy (heap_ st) (root ps) with
                  | None => (st, OErr EDangling)
                  | Some (h1, c) =>
                      let h2 := set_attr h1 c "_q_metadata" (AQmd (dict_merge (qmd_of (nattrs base)) added)) in
                      add_stream st h2 (mkstream c (ity ps)) (nds st)
                  end
              end
          | _, _ => (st, OErr EDangling)
          end
      end
  | ValueStart s ov title =>
      match nth_error (streams st) s with
      | None => (st, OErr EBadStream)
      | Some ps =>
          match unfold (heap_ st) (root ps) with
          | None => (st, OErr EDangling)
          | Some t =>
              match (match ov with Some k => Ok (EOv k) | None => exec_walk t end) with
              | Err e => (st, OErr e)
              | Ok exe =>
                  match remove_empty_h (heap_ st) (root ps) with
                  | Err e => (st, OErr e)
                  | Ok (h', v) =>
                      (mkstate h' (streams st) (nds st) (log st ++ [(exe, abs_v h' v, title)]) (calls st ++ [None]),
                       OCall (length (calls st)))
                  end
              end
          end
      end
  | ValueFinish c r =>
      match nth_error (calls st) c with
      | Some None =>
          (mkstate (heap_ st) (streams st) (nds st) (log st) (set_nth (calls st) c (Some r)), ODone c r)
      | _ => (st, OErr EBadCall)
      end
  | _ =>
      match build st o with
      | Err e => (st, OErr e)
      | Ok (it, ty) =>
          match alloc roots it (heap_ st) with
          | Ok (h', HA a) =>
              add_stream st h' (mkstream a ty) (match o with NewDataset _ => S (nds st) | _ => nds st end)
          | Ok (_, HL _) => (st, OErr EBadTree)
          | Err e => (st, OErr e)
          end
      end
  end.

Fixpoint run_from (st : state) (ops : list op) : state * list out :=
  match ops with
  | [] => (st, [])
  | o :: r => let (st1, o1) := step st o in let (st2, os) := run_from st1 r in (st2, o1 :: os)
  end.
Definition run (ops : list op) : state := fst (run_from init ops).
Definition outs (ops : list op) : list out := snd (run_from init ops).
Definition run_prefix (ops : list op) (i : nat) : state := run (firstn i ops).

(* ---------------------------------------------------------------- observations *)
Definition live (st : state) (s : nat) : Prop := s < length (streams st).
(* ast.dump(stream.query_ast), stream.item_type *)
Definition obs (st : state) (s : nat) : option (option tree * string) :=
  match nth_error (streams st) s with
  | Some x => Some (abs (heap_ st) (root x), ity x)
  | None => None
  end.
(* the same with every node's non-field attributes *)
Definition obs_full (st : state) (s : nat) : option (option atree * string) :=
  match nth_error (streams st) s with
  | Some x => Some (unfold (heap_ st) (root x), ity x)
  | None => None
  end.
(* lookup_query_metadata(stream, k) *)
Definition lookup (st : state) (s : nat) (k : string) : option atom :=
  match nth_error (streams st) s with
  | Some x => match unfold (heap_ st) (root x) with Some t => lookup_t k t | None => None end
  | None => None
  end.
(* find_EventDataset(stream.query_ast)._eds_object *)
Definition stream_dataset (st : state) (s : nat) : res nat :=
  match nth_error (streams st) s with
  | Some x =>
      match unfold (heap_ st) (root x) with
      | Some t => match find_root t with
                  | Ok (G at_ _ _) => match assoc "_eds_object" at_ with Some (AEds d) => Ok d | _ => Err EAttribute end
                  | Ok (Leaf _) => Err EAttribute
                  | Err e => Err e
                  end
      | None => Err EDangling
      end
  | None => Err EBadStream
  end.

(* the result a value_async call delivered to its caller (None while pending) *)
Definition result_of (st : state) (c : nat) : option result :=
  match nth_error (calls st) c with Some r => r | None => None end.

(* ---------------------------------------------------------------- the abstract spec of C16 *)
(* the history with every QMetaData call replaced by one that sets nothing *)
Definition erase_qmd (ops : list op) : list op :=
  map (fun o => match o with QMetaData s _ => QMetaData s [] | _ => o end) ops.

(* dictionary replay: the metadata in force on each stream, oldest stream first.  A stream inherits its
   parent's dictionary; QMetaData overrides key by key; a failed operation creates no stream. *)
Definition env_step (envs : list (list (string * atom))) (o : op) (ok : bool) : list (list (string * atom)) :=
  if ok then
    match o with
    | NewDataset _ | NewStream _ _ => envs ++ [[]]
    | Derive s _ _ _ _ | MetaData s _ | Terminal s _ _ => envs ++ [nth s envs []]
    | QMetaData s kvs => envs ++ [dict_merge (nth s envs []) kvs]
    | _ => envs
    end
  else envs.

Definition is_ostream (o : out) : bool := match o with OStream _ => true | _ => false end.

Fixpoint env_replay (envs : list (list (string * atom))) (ops : list op) (os : list out) :=
  match ops, os with
  | o :: r, x :: xs => env_replay (env_step envs o (is_ostream x)) r xs
  | _, _ => envs
  end.
Definition qmd_spec (ops : list op) (s : nat) (k : string) : option atom :=
  assoc k (nth s (env_replay [] ops (outs ops)) []).

Fixpoint nodup_keys {A} (l : list (string * A)) : bool :=
  match l with
  | [] => true
  | kv :: r => negb (existsb (String.eqb (fst kv)) (map fst r)) && nodup_keys r
  end.

(* histories in which no supplied tree mentions another stream's AST or carries attributes, and the
   argument of QMetaData is a dict (no key twice) *)
Definition op_plain (o : op) : bool :=
  match o with
  | QMetaData _ kvs => nodup_keys kvs
  | NewStream t _ => ref_free t && plain t
  | Derive _ _ lam cb _ => ref_free lam && plain lam && forallb (fun t => ref_free t && plain t) cb
  | MetaData _ lit => ref_free lit && plain lit
  | Terminal _ _ lits => forallb (fun p => ref_free (snd p) && plain (snd p)) lits
  | _ => true
  end.

(* ---------------------------------------------------------------- the abstract spec of C12's routing *)
(* no EventDataset(...) call anywhere in a tree *)
Fixpoint no_ds {X} (t : gtree X) : bool :=
  match t with
  | Leaf _ => true
  | G _ cls fs =>
      negb (String.eqb cls "Call" && func_is fs "EventDataset") && forallb (fun fl => forallb no_ds (snd fl)) fs
  end.

(* histories that only derive streams from datasets with the stream operations, the supplied trees
   (lambdas, literals) mentioning neither another stream's AST nor EventDataset(...) *)
Definition op_derived (o : op) : bool :=
  match o with
  | NewStream _ _ => false
  | Derive _ _ lam cb _ => ref_free lam && no_ds lam && forallb (fun t => ref_free t && no_ds t) cb
  | MetaData _ lit => ref_free lit && no_ds lit
  | Terminal _ _ lits => forallb (fun p => ref_free (snd p) && no_ds (snd p)) lits
  | _ => true
  end.

(* the dataset each stream descends from: replay of the history *)
Definition ds_step (st : list nat * nat) (o : op) (ok : bool) : list nat * nat :=
  let (ds, n) := st in
  if ok then
    match o with
    | NewDataset _ => ((ds ++ [n])%list, S n)
    | NewStream _ _ => ((ds ++ [0])%list, n)
    | Derive s _ _ _ _ | MetaData s _ | QMetaData s _ | Terminal s _ _ => ((ds ++ [nth s ds 0])%list, n)
    | _ => st
    end
  else st.
Fixpoint ds_replay (st : list nat * nat) (ops : list op) (os : list out) : list nat * nat :=
  match ops, os with
  | o :: r, x :: xs => ds_replay (ds_step st o (is_ostream x)) r xs
  | _, _ => st
  end.
Definition ds_spec (ops : list op) (s : nat) : nat := nth s (fst (ds_replay ([], 0) ops (outs ops))) 0.

(* the executor _get_executor finds for stream s *)
Definition stream_executor (st : state) (s : nat) : res exid :=
  match nth_error (streams st) s with
  | Some x => match unfold (heap_ st) (root x) with Some t => exec_walk t | None => Err EDangling end
  | None => Err EBadStream
  end.

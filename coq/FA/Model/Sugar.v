(* Model of func_adl/ast/syntatic_sugar.py: resolve_syntatic_sugar (class syntax_transformer).

   A post-order ast.NodeTransformer:
     visit_ListComp / visit_GeneratorExp : generic_visit, then resolve_generator over the
        *reversed* generators, building   <iter>.Where(lambda t: if1)...Where(lambda t: ifn).Select(lambda t: elt)
        (method form, one Where per [if] clause in source order, lambda parameter = the target name);
     visit_Call : generic_visit, then - when the callee is a Constant holding a dataclass or a
        NamedTuple class - convert_call_to_dict;
     every other node class : generic_visit.

   Every [raise] of the code is an explicit error value:
     ValueErr r  - the code raises ValueError (reason r; messages are not modelled)
     Crash k     - the code dies with another exception (AttributeError on [c.target] when an
                   element of [generators] is not an ast.comprehension).

   The behaviour modelled for convert_call_to_dict is the one *with fixes/F17.diff applied*
   ([convert]: a keyword naming a field that is already bound raises ValueError).  The behaviour
   of the pinned commit is kept as [convert_pinned] (later duplicate silently wins / positional
   binding silently wins), so that the defect is a theorem ([dataclass_binds_pinned_refuted]).

   Which Constant values are dataclass / NamedTuple classes, and their field names, is carried by
   the [kind] string of [CObj kind id] ("dataclass:f1,f2" = names of inspect.signature(cls)
   parameters, "namedtuple:f1,f2" = cls._fields; harness/bridge.py obj_kind reads the very same
   two sources the code reads). *)
From FA.Base Require Import PyAst Value Traverse.
From Coq Require Import Ascii.

(* ---------- results with an explicit error enumeration ---------- *)

Inductive vreason :=
 | TargetNotName                      (* "Comprehension variable must be a name" *)
 | AsyncComp                          (* "Comprehension can't be async" *)
 | TooManyArgs                        (* "Too many arguments for dataclass" *)
 | DupArg (k : option string)         (* fixes/F17.diff: "Multiple values for argument" *)
 | UnknownArg (k : option string)     (* "Argument k not found in dataclass"; None = a [**kw] entry *)
 | DynamicArg.                        (* F58: a starred positional argument has no field it could be bound to statically *)

Inductive crashkind :=
 | GenNotComprehension.               (* AttributeError: element of [generators] has no .target *)

Inductive serr := ValueErr (r : vreason) | Crash (k : crashkind).

Inductive sres (A : Type) := Ok (a : A) | Err (e : serr).
Arguments Ok {A} a.
Arguments Err {A} e.

Definition rbind {A B} (r : sres A) (f : A -> sres B) : sres B :=
  match r with Ok a => f a | Err e => Err e end.

Definition rmap {A B} (f : A -> sres B) : list A -> sres (list B) :=
  fix go (l : list A) : sres (list B) :=
    match l with
    | [] => Ok []
    | x :: xs => rbind (f x) (fun y => rbind (go xs) (fun ys => Ok (y :: ys)))
    end.

Definition to_opt {A} (r : sres A) : option A := match r with Ok a => Some a | Err _ => None end.

(* generic_visit with the first raise, in ast.iter_fields order, propagating *)
Definition map_children_r (f : expr -> sres expr) (e : expr) : sres expr :=
  match e with
  | Name _ | Const _ | Raw _ => Ok e
  | Attr v a => rbind (f v) (fun v' => Ok (Attr v' a))
  | Call g args kwn kwv =>
      rbind (f g) (fun g' => rbind (rmap f args) (fun args' => rbind (rmap f kwv) (fun kwv' =>
        Ok (Call g' args' kwn kwv'))))
  | Lambda ps b => rbind (f b) (fun b' => Ok (Lambda ps b'))
  | UnaryOp o x => rbind (f x) (fun x' => Ok (UnaryOp o x'))
  | BinOp o l r => rbind (f l) (fun l' => rbind (f r) (fun r' => Ok (BinOp o l' r')))
  | BoolOp o es => rbind (rmap f es) (fun es' => Ok (BoolOp o es'))
  | Compare l ops rs => rbind (f l) (fun l' => rbind (rmap f rs) (fun rs' => Ok (Compare l' ops rs')))
  | IfExp c t x => rbind (f c) (fun c' => rbind (f t) (fun t' => rbind (f x) (fun x' => Ok (IfExp c' t' x'))))
  | Tuple es => rbind (rmap f es) (fun es' => Ok (Tuple es'))
  | List es => rbind (rmap f es) (fun es' => Ok (List es'))
  | Dict ks vs => rbind (rmap f ks) (fun ks' => rbind (rmap f vs) (fun vs' => Ok (Dict ks' vs')))
  | Subscript v s => rbind (f v) (fun v' => rbind (f s) (fun s' => Ok (Subscript v' s')))
  | ListComp x gs => rbind (f x) (fun x' => rbind (rmap f gs) (fun gs' => Ok (ListComp x' gs')))
  | GenExp x gs => rbind (f x) (fun x' => rbind (rmap f gs) (fun gs' => Ok (GenExp x' gs')))
  | CompFor t i ifs a =>
      rbind (f t) (fun t' => rbind (f i) (fun i' => rbind (rmap f ifs) (fun ifs' => Ok (CompFor t' i' ifs' a))))
  | Other cls atoms cs => rbind (rmap f cs) (fun cs' => Ok (Other cls atoms cs'))
  end.

(* ---------- resolve_generator ---------- *)

Definition where_call (x : string) (src c : expr) : expr :=
  Call (Attr src "Where") [lambda_build x c] [] [].

Definition select_call (x : string) (src body : expr) : expr :=
  Call (Attr src "Select") [lambda_build x body] [] [].

(* for a_if in c.ifs: source_collection = source_collection.Where(lambda t: a_if) *)
Definition where_chain (x : string) (src : expr) (ifs : list expr) : expr :=
  fold_left (where_call x) ifs src.

(* the loop [for c in reversed(generators)]; [body] is lambda_body, [a] the current result *)
Fixpoint resolve_gens (body a : expr) (rgs : list expr) : sres expr :=
  match rgs with
  | [] => Ok a
  | c :: rest =>
      match c with
      | CompFor target it ifs is_async =>
          match target with
          | Name x =>
              if is_async then Err (ValueErr AsyncComp)
              else let a' := select_call x (where_chain x it ifs) body in
                   resolve_gens a' a' rest
          | _ => Err (ValueErr TargetNotName)
          end
      | _ => Err (Crash GenNotComprehension)
      end
  end.

Definition resolve_generator (elt : expr) (gs : list expr) (node : expr) : sres expr :=
  resolve_gens elt node (rev gs).

(* what visit_ListComp / visit_GeneratorExp do to the generically visited node *)
Definition lower_comp (a : expr) : sres expr :=
  match a with
  | ListComp x gs | GenExp x gs => resolve_generator x gs a
  | _ => Ok a
  end.

(* ---------- convert_call_to_dict ---------- *)

Inductive bres :=
 | BOk (assoc : list (string * expr))
 | BErr (r : vreason).

Definition okey_eqb (a b : option string) : bool := ostr_eqb a b.

Definition mem_str (x : string) (l : list string) : bool := existsb (String.eqb x) l.
Definition mem_okey (k : option string) (l : list (option string)) : bool := existsb (okey_eqb k) l.

(* [name in sig_arg_names] for a keyword name that may be None *)
Definition okey_in_fields (k : option string) (fields : list string) : bool :=
  match k with Some s => mem_str s fields | None => false end.

Fixpoint kw_lookup (k : string) (kws : list (option string * expr)) : option expr :=
  match kws with
  | [] => None
  | (Some k', v) :: rest => if String.eqb k k' then Some v else kw_lookup k rest
  | (None, _) :: rest => kw_lookup k rest
  end.

(* fixes/F17.diff: the loop building arg_lookup refuses a key already bound *)
Fixpoint first_dup (bound_pos : list string) (seen : list (option string))
                   (kws : list (option string * expr)) : option (option string) :=
  match kws with
  | [] => None
  | (k, _) :: rest =>
      if mem_okey k seen || okey_in_fields k bound_pos then Some k
      else first_dup bound_pos (seen ++ [k]) rest
  end.

Fixpoint first_unknown (fields : list string) (kws : list (option string * expr)) : option (option string) :=
  match kws with
  | [] => None
  | (k, _) :: rest => if okey_in_fields k fields then first_unknown fields rest else Some k
  end.

(* for name in sig_arg_names[len(args):]: if name in arg_lookup: append *)
Definition kw_fill (rest_fields : list string) (kws : list (option string * expr)) : list (string * expr) :=
  flat_map (fun n => match kw_lookup n kws with Some v => [(n, v)] | None => [] end) rest_fields.

Definition convert (fields : list string) (args : list expr) (kws : list (option string * expr)) : bres :=
  if Nat.ltb (length fields) (length args + length kws) then BErr TooManyArgs
  else
    let n := length args in
    match first_dup (firstn n fields) [] kws with
    | Some k => BErr (DupArg k)
    | None =>
        match first_unknown fields kws with
        | Some k => BErr (UnknownArg k)
        | None => BOk (combine (firstn n fields) args ++ kw_fill (skipn n fields) kws)
        end
    end.

(* the pinned commit: arg_lookup = {a.arg: a.value for a in a.keywords} (a later duplicate
   overwrites the value, the key keeps its first position), and no duplicate check at all *)
Fixpoint dict_set (k : option string) (v : expr) (d : list (option string * expr)) : list (option string * expr) :=
  match d with
  | [] => [(k, v)]
  | (k', v') :: rest => if okey_eqb k k' then (k', v) :: rest else (k', v') :: dict_set k v rest
  end.

Definition dict_of_kws (kws : list (option string * expr)) : list (option string * expr) :=
  fold_left (fun d kv => dict_set (fst kv) (snd kv) d) kws [].

Definition convert_pinned (fields : list string) (args : list expr) (kws : list (option string * expr)) : bres :=
  if Nat.ltb (length fields) (length args + length kws) then BErr TooManyArgs
  else
    let n := length args in
    let d := dict_of_kws kws in
    match first_unknown fields d with
    | Some k => BErr (UnknownArg k)
    | None => BOk (combine (firstn n fields) args ++ kw_fill (skipn n fields) d)
    end.

(* ---------- which constants are dataclass / NamedTuple classes ---------- *)

Fixpoint strip_prefix (p s : string) : option string :=
  match p with
  | EmptyString => Some s
  | String c p' =>
      match s with
      | String d s' => if Ascii.eqb c d then strip_prefix p' s' else None
      | EmptyString => None
      end
  end.

Fixpoint split_aux (s cur : string) : list string :=
  match s with
  | EmptyString => [cur]
  | String c s' =>
      if Ascii.eqb c ","%char then cur :: split_aux s' EmptyString
      else split_aux s' (cur ++ String c EmptyString)%string
  end.

Definition split_commas (s : string) : list string :=
  match s with EmptyString => [] | _ => split_aux s EmptyString end.

(* is_dataclass(value) is tested first, then hasattr(value, "_fields") *)
Definition class_fields (c : const) : option (list string) :=
  match c with
  | CObj kind _ =>
      match strip_prefix "dataclass:" kind with
      | Some r => Some (split_commas r)
      | None =>
          match strip_prefix "namedtuple:" kind with
          | Some r => Some (split_commas r)
          | None => None
          end
      end
  | _ => None
  end.

Definition dict_of_assoc (assoc : list (string * expr)) : expr :=
  Dict (map (fun kv => Const (CStr (fst kv))) assoc) (map snd assoc).

(* a starred positional argument [*xs] (an [Other] node of class Starred) *)
Definition is_starred (e : expr) : bool :=
  match e with Other cls _ _ => String.prefix "Starred;" cls | _ => false end.

(* what visit_Call does to the generically visited node *)
Definition lower_call_with (conv : list string -> list expr -> list (option string * expr) -> bres) (a : expr) : sres expr :=
  match a with
  | Call (Const c) args kwn kwv =>
      match class_fields c with
      | Some fields =>
          if existsb is_starred args then Err (ValueErr DynamicArg)      (* F58 *)
          else
          match conv fields args (combine kwn kwv) with
          | BOk assoc => Ok (dict_of_assoc assoc)
          | BErr r => Err (ValueErr r)
          end
      | None => Ok a
      end
  | _ => Ok a
  end.

(* ---------- the transformer ---------- *)

Section Pass.
  Variable conv : list string -> list expr -> list (option string * expr) -> bres.

  Fixpoint sugar_with (e : expr) : sres expr :=
    match e with
    | ListComp _ _ | GenExp _ _ => rbind (map_children_r sugar_with e) lower_comp
    | Call _ _ _ _ => rbind (map_children_r sugar_with e) (lower_call_with conv)
    | _ => map_children_r sugar_with e
    end.
End Pass.

Definition sugar : expr -> sres expr := sugar_with convert.                 (* with fixes/F17.diff *)
Definition sugar_pinned : expr -> sres expr := sugar_with convert_pinned.   (* the pinned commit *)
Definition lower_call := lower_call_with convert.

(* Model of the callable path of func_adl/util_ast.py: parse_as_ast(callable) =
     _resolve_called_lambdas().visit(_rewrite_captured_vars(global_getclosurevars(f)).visit(src_ast))
   followed (in ObjectStream.Select/Where/SelectMany) by check_ast.

   The model mirrors the *fixed* algorithms (fixes/F06, F07, F08, F19, FC1 ... FC6 .diff):
     FC3  a captured plain value is kept as the receiver of an attribute that is not folded (x.upper())
     F19  visit_Attribute folds only when the rewritten receiver is an ast.Constant
     F08  comprehension targets are on the ignore stack (first iterable in the enclosing scope)
     FC1  a closure variable hides a module global of the same name (nonlocals before globals)
     F06  the body of an inlined lambda is visited with [visit], so a bare parameter is replaced
     FC2  a called lambda is inlined only when there are no keywords (and the lambda has only plain
          positional parameters - which is what the [Lambda] constructor of PyAst.v means)
     F07  parameters of lambdas that stay in the tree, and comprehension targets, hide arguments
          of the same name in _resolve_called_lambdas
     FC4  a called lambda is not inlined when a name of its (visited) arguments is bound again by a lambda /
          comprehension that may stay inside its body ([inner_binders]); the call stays, its parts resolved
     FC6  a helper is left by name when a name it still uses freely is bound at the call site ([free_in])
     FC5  the Lambda of a captured helper is itself rewritten with the helper's own snapshot before it is
          used ([helper_capval]; any error, and recursion, leave the helper by name)
     FC7  every parameter of a lambda (positional-only, keyword-only, *args, **kwargs too) is on the ignore stack of
          _rewrite_captured_vars while its body is visited ([lv_params])
     FC8  default values of a lambda's parameters are rewritten in the enclosing scope (not under the parameters)
     F30  a called lambda with a starred argument is not "plainly called": the call stays ([is_starred])
     F31  _resolve_called_lambdas.visit_Lambda: default values are resolved in the enclosing scope (the argument maps
          in flight apply to them, the lambda's own parameters do not hide them), the body under the parameters
     F32  _inner_binders counts every parameter of a lambda that stays (keyword-only, positional-only, * and ** too)
     F36  a helper whose source contains an assignment expression is left by name ([has_walrus] in [helper_capval])
     F42  names bound by assignment expressions in a lambda's body ([assigned]) are on the ignore stack of
          _rewrite_captured_vars like its parameters: they are local to the lambda, never captures
     F48  a called lambda whose body contains an assignment expression is not "plainly called": the call stays
     F34, F35  a captured bound method / a callable with __wrapped__ is left by name: decided on the live object
          (inspect.ismethod, hasattr) - an input of the model, [CFun None] in the snapshot, computed by the harness
   What [inspect.getclosurevars] / [f.__globals__] / [getattr] report at the moment of the call is
   an *input* of the model (the snapshot [cenv]); it is validated by correspondence only.

   Lambdas.  [Lambda ps b] (PyAst.v) is a lambda with plain positional parameters and no default values.  Any other
   ast.Lambda arrives (harness/bridge.py) as
       Other "Lambda;args=n;body=n" [] [ Other "arguments;posonlyargs=[..];args=[..];vararg=..;kwonlyargs=[..];
                                                kw_defaults=[..];defaults=[..];kwarg=.." atoms kids ; body ]
   where [kids] are, in ast.iter_fields order, the [ast.arg] nodes (Other "arg;arg=a;annotation=..;type_comment=.."
   [CStr name] [annotation?]) and the default expressions, and the layout in the class string tells how many kids each
   field has ("[nn]" two nodes, "n" one, "0" none, "a" an atom = a None entry of kw_defaults).  [lam_view] decodes
   that: the names of node.args.args ([lv_args]), every bound name ([lv_params] = util_ast._lambda_parameters) and
   whether only `args` is populated ([lv_simple], the last conjunct of _plainly_called).  A node of this class that
   does not decode (no parser produces one) is treated by generic_visit.
   A starred argument `*x` is Other "Starred;value=n" [] [x]. *)
From FA.Base Require Import PyAst Value Traverse.
From FA.Gen Require Import TablesUtil.
From Coq Require Import Ascii.

(* ---------- results: where the Python raises, an explicit error ---------- *)
Inductive err := EValueError | ECrash.       (* ValueError  vs  any other exception (internal crash) *)
Inductive sres (A : Type) := Ok (a : A) | Err (e : err).
Arguments Ok {A} a.
Arguments Err {A} e.

Definition sbind {A B} (r : sres A) (f : A -> sres B) : sres B :=
  match r with Ok a => f a | Err e => Err e end.

Fixpoint smap {A B} (f : A -> sres B) (l : list A) : sres (list B) :=
  match l with
  | [] => Ok []
  | x :: xs => sbind (f x) (fun y => sbind (smap f xs) (fun ys => Ok (y :: ys)))
  end.

(* ---------- the snapshot taken by global_getclosurevars at the call ---------- *)
Inductive capval :=
 | CVal (c : const)            (* a class or module (-> ast.Constant(value=v)) or any non-callable value (-> as_literal(v)) *)
 | CFun (l : option expr).     (* a callable that is not a class: its source parsed into a Lambda, None if that failed *)

Inductive attr_res :=
 | AVal (c : const)                  (* hasattr holds, receiver is not an Enum class: getattr gives this value *)
 | AEnum (ns : option (list string)) (* receiver is an Enum class: the defining module's _object_cpp_as_py_namespace,
                                        None = attribute absent, Some [] = "", Some [a;b] = "a.b" *)
 | ACrash.                           (* the lookup path raises (import_module / __module__) *)

Record cenv := {
  ce_nonlocals : list (string * capval);
  ce_globals : list (string * capval);
  ce_attrs : list (const * string * attr_res);   (* absent = hasattr is False *)
}.

Fixpoint assoc {A} (x : string) (l : list (string * A)) : option A :=
  match l with
  | [] => None
  | (y, v) :: l' => if String.eqb x y then Some v else assoc x l'
  end.

(* FC1: nonlocals first *)
Definition lookup_var (ce : cenv) (x : string) : option capval :=
  match assoc x (ce_nonlocals ce) with
  | Some v => Some v
  | None => assoc x (ce_globals ce)
  end.

Fixpoint lookup_attr_in (l : list (const * string * attr_res)) (c : const) (a : string) : option attr_res :=
  match l with
  | [] => None
  | (c', a', r) :: l' => if const_eqb c c' && String.eqb a a' then Some r else lookup_attr_in l' c a
  end.
Definition lookup_attr (ce : cenv) := lookup_attr_in (ce_attrs ce).

(* ---------- small syntactic helpers ---------- *)

(* [n.id for n in ast.walk(e) if isinstance(n, ast.Name)] *)
Fixpoint names_in (e : expr) : list string :=
  let many := fix many (l : list expr) : list string :=
                match l with [] => [] | x :: xs => names_in x ++ many xs end in
  match e with
  | Name x => [x]
  | Const _ | Raw _ => []
  | Attr v _ => names_in v
  | Call f args _ kwv => names_in f ++ many args ++ many kwv
  | Lambda _ b => names_in b
  | UnaryOp _ x => names_in x
  | BinOp _ l r => names_in l ++ names_in r
  | BoolOp _ es => many es
  | Compare l _ rs => names_in l ++ many rs
  | IfExp c t f => names_in c ++ names_in t ++ names_in f
  | Tuple es | List es => many es
  | Dict ks vs => many ks ++ many vs
  | Subscript v s => names_in v ++ names_in s
  | ListComp x gs | GenExp x gs => names_in x ++ many gs
  | CompFor t i ifs _ => names_in t ++ names_in i ++ many ifs
  | Other _ _ cs => many cs
  end.

(* every ast.Constant value in the tree (what check_ast's NodeVisitor reaches) *)
Fixpoint consts_in (e : expr) : list const :=
  let many := fix many (l : list expr) : list const :=
                match l with [] => [] | x :: xs => consts_in x ++ many xs end in
  match e with
  | Const c => [c]
  | Name _ | Raw _ => []
  | Attr v _ => consts_in v
  | Call f args _ kwv => consts_in f ++ many args ++ many kwv
  | Lambda _ b => consts_in b
  | UnaryOp _ x => consts_in x
  | BinOp _ l r => consts_in l ++ consts_in r
  | BoolOp _ es => many es
  | Compare l _ rs => consts_in l ++ many rs
  | IfExp c t f => consts_in c ++ consts_in t ++ consts_in f
  | Tuple es | List es => many es
  | Dict ks vs => many ks ++ many vs
  | Subscript v s => consts_in v ++ consts_in s
  | ListComp x gs | GenExp x gs => consts_in x ++ many gs
  | CompFor t i ifs _ => consts_in t ++ consts_in i ++ many ifs
  | Other _ _ cs => many cs
  end.

(* names bound by the [for] clauses of a comprehension: every Name inside every target *)
Fixpoint comp_targets (gs : list expr) : list string :=
  match gs with
  | [] => []
  | CompFor t _ _ _ :: gs' => names_in t ++ comp_targets gs'
  | _ :: gs' => comp_targets gs'
  end.

Definition is_compfor (e : expr) : bool := match e with CompFor _ _ _ _ => true | _ => false end.

(* ---------- starred arguments; lambdas with default values / other parameter kinds (bridge.py's encoding) ---------- *)

(* isinstance(x, ast.Starred) *)
Definition is_starred (e : expr) : bool :=
  match e with Other cls _ _ => String.prefix "Starred;" cls | _ => false end.

(* an ast.arg node, and the name it binds *)
Definition is_argnode (e : expr) : bool :=
  match e with Other cls _ _ => String.prefix "arg;" cls | _ => false end.

Definition argnode_name (e : expr) : option string :=
  match e with Other _ (CStr s :: _) _ => Some s | _ => None end.

Fixpoint argnode_names (l : list expr) : option (list string) :=
  match l with
  | [] => Some []
  | a :: l' => match argnode_name a, argnode_names l' with
               | Some x, Some xs => Some (x :: xs)
               | _, _ => None
               end
  end.

(* "Class;f1=l1;f2=l2" -> ["Class"; "f1=l1"; "f2=l2"] *)
Fixpoint split_semi (s : string) : list string :=
  match s with
  | EmptyString => [EmptyString]
  | String c r =>
      if Ascii.eqb c ";"%char then EmptyString :: split_semi r
      else match split_semi r with
           | h :: t => String c h :: t
           | [] => [String c EmptyString]
           end
  end.

Fixpoint count_n (s : string) : nat :=
  match s with
  | EmptyString => 0
  | String c r => (if Ascii.eqb c "n"%char then 1 else 0) + count_n r
  end.

(* number of child nodes the field [name] (given with its "=") holds, read off the layout; 0 when absent *)
Fixpoint field_nodes (name : string) (fields : list string) : nat :=
  match fields with
  | [] => 0
  | f :: fs => if String.prefix name f then count_n (substring (String.length name) (String.length f) f)
               else field_nodes name fs
  end.

Record lamv := {
  lv_args : list string;      (* [a.arg for a in node.args.args] *)
  lv_params : list string;    (* util_ast._lambda_parameters(node): every name the lambda binds *)
  lv_simple : bool;           (* not (posonlyargs or kwonlyargs or vararg or kwarg) *)
}.

(* [acls], [akids]: class string and child nodes of the ast.arguments node *)
Definition lam_view (acls : string) (akids : list expr) : option lamv :=
  if String.prefix "arguments;" acls then
    let fs := split_semi acls in
    let np := field_nodes "posonlyargs=" fs in
    let na := field_nodes "args=" fs in
    match argnode_names (filter is_argnode akids) with
    | Some all =>
        Some {| lv_args := firstn na (skipn np all);
                lv_params := all;
                lv_simple := Nat.eqb np 0 && Nat.eqb (field_nodes "vararg=" fs) 0
                             && Nat.eqb (field_nodes "kwonlyargs=" fs) 0 && Nat.eqb (field_nodes "kwarg=" fs) 0 |}
    | None => None
    end
  else None.

(* generic_visit over the children of an ast.arguments node as the fixed visit_Lambda methods do it: the ast.arg
   nodes are left alone, the default expressions are visited with [f] *)
Definition on_defaults (f : expr -> expr) (k : expr) : expr := if is_argnode k then k else f k.

(* "ns.<chain>": the dotted namespace in front of the root name of an attribute chain *)
Fixpoint ns_chain (ns : list string) (acc : option expr) : option expr :=
  match ns with
  | [] => acc
  | n :: ns' => ns_chain ns' (Some (match acc with None => Name n | Some a => Attr a n end))
  end.

Fixpoint prepend_ns (ns : list string) (e : expr) : expr :=
  match e with
  | Name r => match ns_chain ns None with Some p => Attr p r | None => e end
  | Attr v a => Attr (prepend_ns ns v) a
  | _ => e
  end.

(* visit_Call keeps a Constant callee only for data classes and named tuples *)
Definition keeps_const_callee (c : const) : bool :=
  match c with
  | CObj k _ => String.prefix "dataclass:" k || String.prefix "namedtuple:" k
  | _ => false
  end.

(* isinstance(value, (type, ModuleType)) on a constant's value *)
Definition byname_const (c : const) : bool :=
  match c with
  | CObj k _ => String.eqb k "type" || String.eqb k "module"
                || String.prefix "dataclass:" k || String.prefix "namedtuple:" k
  | _ => false
  end.

(* ---------- _rewrite_captured_vars ---------- *)

Definition is_arg (st : list (list string)) (x : string) : bool :=
  existsb (existsb (String.eqb x)) st.

(* generic_visit over a list of children: the nodes returned by the visitor *)
Definition rw_list (f : expr -> sres (expr * expr)) : list expr -> sres (list expr) :=
  fix go (l : list expr) : sres (list expr) :=
    match l with
    | [] => Ok []
    | x :: xs => sbind (f x) (fun p => sbind (go xs) (fun ys => Ok (fst p :: ys)))
    end.

(* the generators of a comprehension (F08): the first iterable is visited in the enclosing scope [f_out],
   every other iterable and all conditions with the targets on the ignore stack [f_in]; targets are not visited *)
Definition rw_gens (f_out f_in : expr -> sres (expr * expr)) : bool -> list expr -> sres (list expr) :=
  fix go (first : bool) (l : list expr) : sres (list expr) :=
    match l with
    | [] => Ok []
    | g :: gs =>
        match g with
        | CompFor t it ifs a =>
            sbind ((if first then f_out else f_in) it) (fun pit =>
            sbind (rw_list f_in ifs) (fun ifs' =>
            sbind (go false gs) (fun gs' =>
              Ok (CompFor t (fst pit) ifs' a :: gs'))))
        | _ => Err ECrash            (* g.target: AttributeError *)
        end
    end.

(* FC6: util_ast._free_names - the names [e] uses that no lambda / comprehension inside it binds *)
Definition free_gens (f_out f_in : expr -> list string) : bool -> list expr -> list string :=
  fix go (first : bool) (l : list expr) : list string :=
    match l with
    | [] => []
    | g :: gs =>
        match g with
        | CompFor _ it ifs _ => (if first then f_out else f_in) it ++ flat_map f_in ifs ++ go false gs
        | _ => f_in g ++ go false gs
        end
    end.

Fixpoint free_in (bd : list string) (e : expr) {struct e} : list string :=
  match e with
  | Name x => if existsb (String.eqb x) bd then [] else [x]
  | Const _ | Raw _ => []
  | Lambda ps b => free_in (ps ++ bd) b
  | ListComp x gs | GenExp x gs =>
      let bd' := comp_targets gs ++ bd in
      free_gens (free_in bd) (free_in bd') true gs ++ free_in bd' x
  | Attr v _ => free_in bd v
  | Call f args _ kwv => free_in bd f ++ flat_map (free_in bd) args ++ flat_map (free_in bd) kwv
  | UnaryOp _ x => free_in bd x
  | BinOp _ l r => free_in bd l ++ free_in bd r
  | BoolOp _ es => flat_map (free_in bd) es
  | Compare l _ rs => free_in bd l ++ flat_map (free_in bd) rs
  | IfExp c t f => free_in bd c ++ free_in bd t ++ free_in bd f
  | Tuple es | List es => flat_map (free_in bd) es
  | Dict ks vs => flat_map (free_in bd) ks ++ flat_map (free_in bd) vs
  | Subscript v s => free_in bd v ++ free_in bd s
  | CompFor t i ifs _ => free_in bd t ++ free_in bd i ++ flat_map (free_in bd) ifs
  | Other cls _ cs =>
      if String.prefix "SetComp;" cls then
        match cs with
        | h :: ((_ :: _) as gs) =>
            let bd' := comp_targets gs ++ bd in free_gens (free_in bd) (free_in bd') true gs ++ free_in bd' h
        | _ => flat_map (free_in bd) cs
        end
      else if String.prefix "DictComp;" cls then
        match cs with
        | k :: v :: ((_ :: _) as gs) =>
            let bd' := comp_targets gs ++ bd in
            free_gens (free_in bd) (free_in bd') true gs ++ free_in bd' k ++ free_in bd' v
        | _ => flat_map (free_in bd) cs
        end
      else if String.prefix "Lambda;" cls then
        (* bound | {a.arg for a in node.args.args}, then every child node (the arguments node too) *)
        match cs with
        | [Other acls _ akids; _] =>
            match lam_view acls akids with
            | Some lv => flat_map (free_in (lv_args lv ++ bd)) cs
            | None => flat_map (free_in bd) cs
            end
        | _ => flat_map (free_in bd) cs
        end
      else flat_map (free_in bd) cs
  end.

Definition same (r : sres expr) : sres (expr * expr) := sbind r (fun e' => Ok (e', e')).

(* F36: any(isinstance(n, ast.NamedExpr) for n in ast.walk(lm)) - an assignment expression `(x := v)` is
   Other "NamedExpr;target=n;value=n" [] [x; v] *)
Fixpoint has_walrus (e : expr) : bool :=
  match e with
  | Name _ | Const _ | Raw _ => false
  | Attr v _ => has_walrus v
  | Call f args _ kwv => has_walrus f || existsb has_walrus args || existsb has_walrus kwv
  | Lambda _ b => has_walrus b
  | UnaryOp _ x => has_walrus x
  | BinOp _ l r => has_walrus l || has_walrus r
  | BoolOp _ es => existsb has_walrus es
  | Compare l _ rs => has_walrus l || existsb has_walrus rs
  | IfExp c t f => has_walrus c || has_walrus t || has_walrus f
  | Tuple es | List es => existsb has_walrus es
  | Dict ks vs => existsb has_walrus ks || existsb has_walrus vs
  | Subscript v s => has_walrus v || has_walrus s
  | ListComp x gs | GenExp x gs => has_walrus x || existsb has_walrus gs
  | CompFor t i ifs _ => has_walrus t || has_walrus i || existsb has_walrus ifs
  | Other cls _ cs => String.prefix "NamedExpr;" cls || existsb has_walrus cs
  end.

(* F42: util_ast._assigned_names - the names that assignment expressions in [e], part of a lambda's body, bind in that
   lambda.  The body of a nested lambda is a scope of its own (not entered); its default values are not. *)
Fixpoint assigned (e : expr) : list string :=
  match e with
  | Name _ | Const _ | Raw _ => []
  | Lambda _ _ => []
  | Attr v _ => assigned v
  | Call f args _ kwv => assigned f ++ flat_map assigned args ++ flat_map assigned kwv
  | UnaryOp _ x => assigned x
  | BinOp _ l r => assigned l ++ assigned r
  | BoolOp _ es => flat_map assigned es
  | Compare l _ rs => assigned l ++ flat_map assigned rs
  | IfExp c t f => assigned c ++ assigned t ++ assigned f
  | Tuple es | List es => flat_map assigned es
  | Dict ks vs => flat_map assigned ks ++ flat_map assigned vs
  | Subscript v s => assigned v ++ assigned s
  | ListComp x gs | GenExp x gs => assigned x ++ flat_map assigned gs
  | CompFor t i ifs _ => assigned t ++ assigned i ++ flat_map assigned ifs
  | Other cls _ cs =>
      (if String.prefix "NamedExpr;" cls then match cs with Name x :: _ => [x] | _ => [] end else [])
      ++ (if String.prefix "Lambda;" cls
          then match cs with a :: _ => assigned a | [] => [] end       (* node.args only *)
          else flat_map assigned cs)
  end.

Section Rewrite.
  Variable ce : cenv.

  (* Result: (the node returned by visit, the *old* node as it is after the visit).  The two differ
     when visit returns a replacement: visit_Name returns a new node and leaves the Name alone;
     visit_Attribute returns a new Constant, or the old Attribute.  Every other visitor edits the node
     in place (generic_visit) and returns it. *)
  Fixpoint rw (st : list (list string)) (e : expr) {struct e} : sres (expr * expr) :=
    match e with
    | Name x =>
        if is_arg st x then Ok (e, e)
        else match lookup_var ce x with
             | Some (CVal c) => Ok (Const c, e)
             | Some (CFun (Some l)) =>
                 (* FC6: a name the helper keeps by name would fall under a binder of the call site: leave the call by name *)
                 if existsb (is_arg st) (free_in [] l) then Ok (e, e) else Ok (l, e)
             | _ => Ok (e, e)
             end
    | Attr v a =>
        sbind (rw st v) (fun p =>
          (* FC3: a captured plain value is assigned as the receiver of the old node; classes/modules stay by name *)
          let old := Attr (match fst p with
                           | Const c => if byname_const c then snd p else fst p
                           | _ => snd p
                           end) a in
          match fst p with
          | Const c =>
              match lookup_attr ce c a with
              | Some (AVal r) => Ok (Const r, old)
              | Some (AEnum None) => Ok (old, old)
              | Some (AEnum (Some ns)) => Ok (prepend_ns ns old, old)
              | Some ACrash => Err ECrash
              | None => Ok (old, old)
              end
          | _ => Ok (old, old)
          end)
    | Lambda ps b =>            (* F42: names bound by assignment expressions in the body are local as well *)
        same (sbind (rw ((ps ++ assigned b) :: st) b) (fun p => Ok (Lambda ps (fst p))))
    | Call f args kwn kwv =>
        same (sbind (rw st f) (fun pf =>
              sbind (rw_list (rw st) args) (fun args' =>
              sbind (rw_list (rw st) kwv) (fun kwv' =>
                let f' := match fst pf with
                          | Const c => if keeps_const_callee c then fst pf else snd pf
                          | _ => fst pf
                          end in
                Ok (Call f' args' kwn kwv')))))
    | ListComp x gs =>
        match gs with
        | [] => Err ECrash                (* node.generators[0]: IndexError *)
        | _ => let st' := comp_targets gs :: st in
               same (sbind (rw_gens (rw st) (rw st') true gs) (fun gs' =>
                     sbind (rw st' x) (fun px => Ok (ListComp (fst px) gs'))))
        end
    | GenExp x gs =>
        match gs with
        | [] => Err ECrash
        | _ => let st' := comp_targets gs :: st in
               same (sbind (rw_gens (rw st) (rw st') true gs) (fun gs' =>
                     sbind (rw st' x) (fun px => Ok (GenExp (fst px) gs'))))
        end
    | Const _ | Raw _ => Ok (e, e)
    | UnaryOp o x => same (sbind (rw st x) (fun p => Ok (UnaryOp o (fst p))))
    | BinOp o l r => same (sbind (rw st l) (fun pl => sbind (rw st r) (fun pr => Ok (BinOp o (fst pl) (fst pr)))))
    | BoolOp o es => same (sbind (rw_list (rw st) es) (fun es' => Ok (BoolOp o es')))
    | Compare l ops rs => same (sbind (rw st l) (fun pl => sbind (rw_list (rw st) rs) (fun rs' => Ok (Compare (fst pl) ops rs'))))
    | IfExp c t f =>
        same (sbind (rw st c) (fun pc => sbind (rw st t) (fun pt => sbind (rw st f) (fun pf =>
                Ok (IfExp (fst pc) (fst pt) (fst pf))))))
    | Tuple es => same (sbind (rw_list (rw st) es) (fun es' => Ok (Tuple es')))
    | List es => same (sbind (rw_list (rw st) es) (fun es' => Ok (List es')))
    | Dict ks vs => same (sbind (rw_list (rw st) ks) (fun ks' => sbind (rw_list (rw st) vs) (fun vs' => Ok (Dict ks' vs'))))
    | Subscript v s => same (sbind (rw st v) (fun pv => sbind (rw st s) (fun ps => Ok (Subscript (fst pv) (fst ps)))))
    | CompFor t i ifs a =>           (* a comprehension clause outside a comprehension: generic_visit *)
        same (sbind (rw st t) (fun pt => sbind (rw st i) (fun pi => sbind (rw_list (rw st) ifs) (fun ifs' =>
                Ok (CompFor (fst pt) (fst pi) ifs' a)))))
    | Other cls atoms cs =>
        (* SetComp / DictComp share visit_ListComp: heads (elt | key, value) then the generators *)
        if String.prefix "SetComp;" cls then
          match cs with
          | h :: ((_ :: _) as gs) =>
              let st' := comp_targets gs :: st in
              same (sbind (rw_gens (rw st) (rw st') true gs) (fun gs' =>
                    sbind (rw st' h) (fun ph => Ok (Other cls atoms (fst ph :: gs')))))
          | _ => Err ECrash
          end
        else if String.prefix "DictComp;" cls then
          match cs with
          | k :: v :: ((_ :: _) as gs) =>
              let st' := comp_targets gs :: st in
              same (sbind (rw_gens (rw st) (rw st') true gs) (fun gs' =>
                    sbind (rw st' k) (fun pk => sbind (rw st' v) (fun pv =>
                      Ok (Other cls atoms (fst pk :: fst pv :: gs'))))))
          | _ => Err ECrash
          end
        else if String.prefix "Lambda;" cls then
          (* visit_Lambda on a lambda with default values / other parameter kinds: the defaults are rewritten in the
             enclosing scope (FC8), the body with every bound name on the ignore stack (FC7) *)
          match cs with
          | [Other acls aatoms akids; b] =>
              match lam_view acls akids with
              | Some lv =>
                  same (sbind (rw_list (fun k => if is_argnode k then Ok (k, k) else rw st k) akids) (fun akids' =>
                        sbind (rw ((lv_params lv ++ assigned b) :: st) b) (fun pb =>
                          Ok (Other cls atoms [Other acls aatoms akids'; fst pb]))))
              | None => same (sbind (rw_list (rw st) cs) (fun cs' => Ok (Other cls atoms cs')))
              end
          | _ => same (sbind (rw_list (rw st) cs) (fun cs' => Ok (Other cls atoms cs')))
          end
        else same (sbind (rw_list (rw st) cs) (fun cs' => Ok (Other cls atoms cs')))
    end.

  Definition rewrite_captured (e : expr) : sres expr := sbind (rw [] e) (fun p => Ok (fst p)).
End Rewrite.

(* ---------- _resolve_called_lambdas ---------- *)

Definition amap := list (string * option expr).     (* None = hidden by a binder that stays in the tree (F07) *)

Fixpoint lookup_st (x : string) (st : list amap) : option (option expr) :=
  match st with
  | [] => None
  | m :: st' => match assoc x m with Some r => Some r | None => lookup_st x st' end
  end.

Definition shadow (ps : list string) : amap := map (fun p => (p, None)) ps.

Definition res_gens (f_out f_in : expr -> expr) : bool -> list expr -> list expr :=
  fix go (first : bool) (l : list expr) : list expr :=
    match l with
    | [] => []
    | g :: gs =>
        match g with
        | CompFor t it ifs a =>
            CompFor t ((if first then f_out else f_in) it) (map f_in ifs) a :: go false gs
        | _ => f_in g :: go false gs      (* not reachable from parsed source *)
        end
    end.

(* F32: set(_lambda_parameters(node)) for a lambda that is an [Other] node: every name it binds *)
Definition lam_bound (cls : string) (cs : list expr) : list string :=
  if String.prefix "Lambda;" cls
  then match cs with
       | [Other acls _ akids; _] => match lam_view acls akids with Some lv => lv_params lv | None => [] end
       | _ => []
       end
  else [].

(* the decoded parts of an [Other cls _ cs] node that is a lambda: class string, atoms and children of its
   ast.arguments node, its body, its parameter view.  (The visitors below repeat this case analysis in place, as
   structural recursion requires; Proofs/CaptureProofs.v relates them to [lam_parts].) *)
Definition lam_parts (cls : string) (cs : list expr) : option (string * list const * list expr * expr * lamv) :=
  if String.prefix "Lambda;" cls
  then match cs with
       | [Other acls aatoms akids; b] =>
           match lam_view acls akids with Some lv => Some (acls, aatoms, akids, b, lv) | None => None end
       | _ => None
       end
  else None.

(* FC4: names bound inside [e] by lambdas and comprehensions that may stay in the tree.  A called lambda of the
   inlinable shape whose body has no such binder is certainly inlined: its parameters disappear. *)
Fixpoint inner_binders (e : expr) : list string :=
  match e with
  | Name _ | Const _ | Raw _ => []
  | Call f args kwn kwv =>
      match f with
      | Lambda ps b =>
          match kwn, inner_binders b with
          | [], [] => if Nat.eqb (length ps) (length args) && negb (existsb is_starred args || has_walrus b)
                      then flat_map inner_binders args
                      else ps ++ flat_map inner_binders args ++ flat_map inner_binders kwv
          | _, bb => ps ++ bb ++ flat_map inner_binders args ++ flat_map inner_binders kwv
          end
      | Other cls _ cs =>
          let generic := lam_bound cls cs ++ flat_map inner_binders cs
                         ++ flat_map inner_binders args ++ flat_map inner_binders kwv in
          (* a called lambda with default values, plainly called: as above *)
          if String.prefix "Lambda;" cls then
            match cs with
            | [Other acls _ akids; b] =>
                match lam_view acls akids, kwn, inner_binders b with
                | Some lv, [], [] =>
                    if lv_simple lv && Nat.eqb (length (lv_args lv)) (length args)
                       && negb (existsb is_starred args || has_walrus b)
                    then flat_map inner_binders args
                    else generic
                | _, _, _ => generic
                end
            | _ => generic
            end
          else generic
      | _ => inner_binders f ++ flat_map inner_binders args ++ flat_map inner_binders kwv
      end
  | Lambda ps b => ps ++ inner_binders b
  | CompFor t i ifs _ => names_in t ++ inner_binders t ++ inner_binders i ++ flat_map inner_binders ifs
  | Attr v _ => inner_binders v
  | UnaryOp _ x => inner_binders x
  | BinOp _ l r => inner_binders l ++ inner_binders r
  | BoolOp _ es => flat_map inner_binders es
  | Compare l _ rs => inner_binders l ++ flat_map inner_binders rs
  | IfExp c t f => inner_binders c ++ inner_binders t ++ inner_binders f
  | Tuple es | List es => flat_map inner_binders es
  | Dict ks vs => flat_map inner_binders ks ++ flat_map inner_binders vs
  | Subscript v s => inner_binders v ++ inner_binders s
  | ListComp x gs | GenExp x gs => inner_binders x ++ flat_map inner_binders gs
  | Other cls _ cs =>
      (* a lambda with default values / other parameter kinds binds every one of its parameters (F32); then every
         child node (the default values too) *)
      lam_bound cls cs ++ flat_map inner_binders cs
  end.

Definition overlaps (used bs : list string) : bool :=
  existsb (fun u => existsb (String.eqb u) bs) used.

Fixpoint res (st : list amap) (e : expr) {struct e} : expr :=
  match e with
  | Name x => match lookup_st x st with Some (Some a) => a | _ => e end
  | Call f args kwn kwv =>
      match f with
      | Lambda ps b =>
          match kwn with
          | [] =>
              if Nat.eqb (length ps) (length args)
              then
                if existsb is_starred args || has_walrus b       (* F30; F48: an assignment expression binds in the lambda *)
                then Call (Lambda ps (res (shadow ps :: st) b)) (map (res st) args) kwn (map (res st) kwv)
                else
                let args' := map (res st) args in
                if overlaps (flat_map names_in args') (inner_binders b)
                then Call (Lambda ps (res (shadow ps :: st) b)) args' [] []            (* FC4: the call stays *)
                else res (combine ps (map (@Some expr) args') :: st) b                 (* F06: visit, not generic_visit *)
              else Call (Lambda ps (res (shadow ps :: st) b)) (map (res st) args) kwn (map (res st) kwv)
          | _ => Call (Lambda ps (res (shadow ps :: st) b)) (map (res st) args) kwn (map (res st) kwv)   (* FC2 *)
          end
      | Other cls _ cs =>
          (* a called lambda with default values: inlined when python binds exactly its positional parameters *)
          let stays := Call (res st f) (map (res st) args) kwn (map (res st) kwv) in
          if String.prefix "Lambda;" cls then
            match cs with
            | [Other acls _ akids; b] =>
                match lam_view acls akids, kwn with
                | Some lv, [] =>
                    if lv_simple lv && Nat.eqb (length (lv_args lv)) (length args)
                       && negb (existsb is_starred args || has_walrus b)
                    then
                      let args' := map (res st) args in
                      if overlaps (flat_map names_in args') (inner_binders b)
                      then stays                                                            (* FC4 *)
                      else res (combine (lv_args lv) (map (@Some expr) args') :: st) b
                    else stays
                | _, _ => stays
                end
            | _ => stays
            end
          else stays
      | _ => Call (res st f) (map (res st) args) kwn (map (res st) kwv)
      end
  | Lambda ps b => Lambda ps (res (shadow ps :: st) b)
  | ListComp x gs =>
      match gs with
      | [] => e
      | _ => let st' := shadow (comp_targets gs) :: st in ListComp (res st' x) (res_gens (res st) (res st') true gs)
      end
  | GenExp x gs =>
      match gs with
      | [] => e
      | _ => let st' := shadow (comp_targets gs) :: st in GenExp (res st' x) (res_gens (res st) (res st') true gs)
      end
  | Const _ | Raw _ => e
  | Attr v a => Attr (res st v) a
  | UnaryOp o x => UnaryOp o (res st x)
  | BinOp o l r => BinOp o (res st l) (res st r)
  | BoolOp o es => BoolOp o (map (res st) es)
  | Compare l ops rs => Compare (res st l) ops (map (res st) rs)
  | IfExp c t f => IfExp (res st c) (res st t) (res st f)
  | Tuple es => Tuple (map (res st) es)
  | List es => List (map (res st) es)
  | Dict ks vs => Dict (map (res st) ks) (map (res st) vs)
  | Subscript v s => Subscript (res st v) (res st s)
  | CompFor t i ifs a => CompFor (res st t) (res st i) (map (res st) ifs) a
  | Other cls atoms cs =>
      if String.prefix "SetComp;" cls then
        match cs with
        | h :: ((_ :: _) as gs) =>
            let st' := shadow (comp_targets gs) :: st in
            Other cls atoms (res st' h :: res_gens (res st) (res st') true gs)
        | _ => e
        end
      else if String.prefix "DictComp;" cls then
        match cs with
        | k :: v :: ((_ :: _) as gs) =>
            let st' := shadow (comp_targets gs) :: st in
            Other cls atoms (res st' k :: res st' v :: res_gens (res st) (res st') true gs)
        | _ => e
        end
      else if String.prefix "Lambda;" cls then
        (* F31, visit_Lambda: the default values in the enclosing scope, the body under every bound name *)
        match cs with
        | [Other acls aatoms akids; b] =>
            match lam_view acls akids with
            | Some lv => Other cls atoms [Other acls aatoms (map (on_defaults (res st)) akids);
                                          res (shadow (lv_params lv) :: st) b]
            | None => Other cls atoms (map (res st) cs)
            end
        | _ => Other cls atoms (map (res st) cs)
        end
      else Other cls atoms (map (res st) cs)
  end.

(* The pass has no raise on trees that come from parsed source.  (With F07 applied, a comprehension
   node without generators would raise IndexError in the implementation; no parser produces one, and
   [res] returns such a node unchanged.) *)
Definition resolve_called (e : expr) : sres expr := Ok (res [] e).

(* FC5: what visit_Name.safe_parse_wrapper makes of a captured helper whose source was parsed into the lambda
   [l]: the lambda rewritten with the helper's own snapshot [hce]; any exception leaves the helper by name.
   (The recursion over helpers of helpers, and its guard against self-reference, is carried out by the caller
   that assembles the snapshot - the driver - one [helper_capval] step per helper.) *)
(* `def ignore(x): return` : rewrite_func_as_lambda hands back a Lambda whose body is None, a raw value where a node
   is required ([Raw], harness/bridge.py).  Rewriting it - visit_Lambda's self.visit(node.body) - raises
   (AttributeError: NoneType has no _fields); safe_parse_wrapper's `except Exception` leaves the helper by name. *)
Definition bare_return (l : expr) : bool :=
  match l with
  | Lambda _ (Raw _) => true
  | Other cls _ [_; Raw _] => String.prefix "Lambda;" cls
  | _ => false
  end.

Definition helper_capval (hce : cenv) (l : expr) : capval :=
  if has_walrus l then CFun None          (* F36: an assignment expression rebinds a name - the helper stays by name *)
  else if bare_return l then CFun None    (* rewriting raises: any exception leaves the helper by name *)
  else
  match rewrite_captured hce l with
  | Ok l' => CFun (Some l')
  | Err _ => CFun None
  end.

(* ---------- check_ast ---------- *)

(* isinstance(value, T): bool is a subclass of int *)
Definition kind_isinstance (k t : ckind) : bool :=
  ckind_eqb k t || match k, t with KBool, KInt => true | _, _ => false end.

Definition legal_const (c : const) : bool :=
  existsb (kind_isinstance (kind_of_const c)) legal_const_kinds.

Definition check_ast (e : expr) : sres unit :=
  if forallb legal_const (consts_in e) then Ok tt else Err EValueError.

(* ---------- parse_as_ast(callable) and the operator's gate ---------- *)

Definition parse_callable (ce : cenv) (src : expr) : sres expr :=
  sbind (rewrite_captured ce src) resolve_called.

Definition capture_pipeline (ce : cenv) (src : expr) : sres expr :=
  sbind (parse_callable ce src) (fun e => sbind (check_ast e) (fun _ => Ok e)).

(* Model of func_adl/ast/aggregate_shortcuts.py: aggregate_node_transformer.

   Nothing about the shortcut names, their guards, lambdas or seed is written by hand: it all
   comes from Gen/Tables.v ([agg_rules], [agg_seed]), regenerated from the source on every run.
   [None] = the visitor raises (IndexError on [node.args[0]] when a rule fires on a call
   without positional arguments). *)
From FA.Base Require Import PyAst Value Traverse.
From FA.Gen Require Import Tables.

Definition rule := (list string * bool * bool * expr)%type.

Definition rule_fires (fn : string) (nargs nkw : nat) (r : rule) : bool :=
  match r with
  | (names, need_args1, need_nokw, _) =>
      existsb (String.eqb fn) names
      && (negb need_args1 || Nat.eqb nargs 1)
      && (negb need_nokw || Nat.eqb nkw 0)
  end.

Definition find_rule (rules : list rule) (fn : string) (nargs nkw : nat) : option rule :=
  find (rule_fires fn nargs nkw) rules.

Definition rule_lambda (r : rule) : expr := snd r.

Definition aggregate_call (seq lam : expr) : expr :=
  function_call "Aggregate" [seq; Const agg_seed; lam].

Section Agg.
  Variable rules : list rule.

  Fixpoint agg_with (e : expr) : option expr :=
    match e with
    | Call (Name fn) args kwn kwv =>
        match find_rule rules fn (length args) (length kwn) with
        | Some r =>
            match args with
            | a0 :: _ => obind (agg_with a0) (fun a0' => Some (aggregate_call a0' (rule_lambda r)))
            | [] => None                                    (* node.args[0] -> IndexError *)
            end
        | None => map_children agg_with e
        end
    | _ => map_children agg_with e
    end.
End Agg.

Definition agg : expr -> option expr := agg_with agg_rules.

(* util_ast._copy_of_tree (F52, F57): the copy parse_as_ast makes of a lambda that the caller hands over as an ast object,
   before the passes that edit their input in place run on it.

   Node objects are modelled by identities: a tree is [Node id attrs cls kids] - [id] the object, [attrs] the names of its
   non-field attributes (vars(node) minus fields and position attributes), [cls] everything ast.dump prints for the node itself,
   [kids] its child nodes in ast.iter_fields order.  New objects take their identities from a counter, parent before children,
   fields in order (the order in which the code calls copy.copy).  A node that carries one of the attributes by which a stream's
   query chain is recognised ([stream_node_attributes], read from the source) is another stream's node that was put into the
   lambda: it is returned as it is, with everything below it. *)
From Coq Require Import String List Bool Arith Lia.
Import ListNotations.
Local Open Scope string_scope.
From FA.Gen Require Import TablesCopy.

Inductive ntree := Node (id : nat) (attrs : list string) (cls : string) (kids : list ntree).

Definition carries (attrs : list string) : bool :=
  existsb (fun a => existsb (String.eqb a) stream_node_attributes) attrs.

Fixpoint copy (t : ntree) (n : nat) {struct t} : ntree * nat :=
  match t with
  | Node i ats c ks =>
      if carries ats then (t, n)
      else
        let copy_list := fix copy_list (l : list ntree) (n : nat) {struct l} : list ntree * nat :=
          match l with
          | [] => ([], n)
          | k :: l' => let (k', n1) := copy k n in let (l'', n2) := copy_list l' n1 in (k' :: l'', n2)
          end in
        let (ks', n') := copy_list ks (S n) in (Node n ats c ks', n')
  end.

Fixpoint copy_list (l : list ntree) (n : nat) : list ntree * nat :=
  match l with
  | [] => ([], n)
  | k :: l' => let (k', n1) := copy k n in let (l'', n2) := copy_list l' n1 in (k' :: l'', n2)
  end.

(* the pre-F57 test: ANY non-field attribute keeps the node *)
Fixpoint copy_any (t : ntree) (n : nat) {struct t} : ntree * nat :=
  match t with
  | Node i ats c ks =>
      if negb (match ats with [] => true | _ => false end) then (t, n)
      else
        let copy_list := fix copy_list (l : list ntree) (n : nat) {struct l} : list ntree * nat :=
          match l with
          | [] => ([], n)
          | k :: l' => let (k', n1) := copy_any k n in let (l'', n2) := copy_list l' n1 in (k' :: l'', n2)
          end in
        let (ks', n') := copy_list ks (S n) in (Node n ats c ks', n')
  end.

(* what ast.dump sees *)
Inductive shape := Shape (cls : string) (kids : list shape).
Fixpoint erase (t : ntree) : shape :=
  match t with Node _ _ c ks => Shape c (map erase ks) end.

(* all objects of a tree, preorder *)
Fixpoint ids (t : ntree) : list nat :=
  match t with Node i _ _ ks => i :: flat_map ids ks end.

(* the objects at or below a node that carries a stream attribute: other streams' nodes *)
Fixpoint attached (t : ntree) : list nat :=
  match t with
  | Node i ats _ ks => if carries ats then ids t else flat_map attached ks
  end.

(* objects and their attributes, for "the copy keeps what the nodes carry" *)
Fixpoint attrs_pre (t : ntree) : list (list string) :=
  match t with Node _ ats _ ks => ats :: flat_map attrs_pre ks end.

(* Model of func_adl/ast/func_adl_ast_utils.py: change_extension_functions_to_calls.

     class transform_calls(ast.NodeTransformer):
         def visit_Call(self, call_node):
             node = self.generic_visit(call_node)              (* children first *)
             if node is None or not isinstance(node, ast.Call): return node
             if not isinstance(node.func, ast.Attribute):       return node
             if node.func.attr not in function_names:           return node
             call = function_call(node.func.attr, [node.func.value] + node.args)
             call.keywords = node.keywords                      (* F39 *)
             return call

   - bottom-up: the test is made on the *visited* node (its [func] has already been transformed);
   - the keywords of a rewritten method call stay with the call (F39; before that fix
     [function_call] alone built [Call (Name op) args [] []] and they were silently dropped);
   - every other node class is handled by [generic_visit] ([map_children_t]);
   - the visitor cannot raise (no indexing, no attribute access that is not guarded by an
     [isinstance]), hence a total function [expr -> expr].
   The list of operator names is a parameter ([function_names]); the default comes from the
   generated table [Gen.Tables.ext_default_ops]. *)
From FA.Base Require Import PyAst Value Traverse.
From FA.Gen Require Import Tables.

Definition in_names (ops : list string) (m : string) : bool := existsb (String.eqb m) ops.

Section Ext.
  Variable ops : list string.

  Fixpoint ext_with (e : expr) : expr :=
    match e with
    | Call f args kwn kwv =>
        let f' := ext_with f in
        let args' := map ext_with args in
        let kwv' := map ext_with kwv in
        match f' with
        | Attr v m =>
            if in_names ops m then Call (Name m) (v :: args') kwn kwv'
            else Call f' args' kwn kwv'
        | _ => Call f' args' kwn kwv'
        end
    | _ => map_children_t ext_with e
    end.
End Ext.

Definition ext : expr -> expr := ext_with ext_default_ops.

(* ---------- the hypothesis of the semantic theorem, as a boolean predicate ----------
   "method-form operator calls carry no keywords": the form [seq.Op(args...)] the property
   speaks about.  (The keywords are kept - F39 - but the reference semantics gives the method form and the
   function form with keywords to two different backend hooks, so the semantic theorem stays with this form.) *)

(* [p] holds of every child node, in ast.iter_fields order *)
Definition all_children (p : expr -> bool) (e : expr) : bool :=
  match e with
  | Name _ | Const _ | Raw _ => true
  | Attr v _ => p v
  | Call g args _ kwv => p g && forallb p args && forallb p kwv
  | Lambda _ b => p b
  | UnaryOp _ x => p x
  | BinOp _ l r => p l && p r
  | BoolOp _ es => forallb p es
  | Compare l _ rs => p l && forallb p rs
  | IfExp c t x => p c && p t && p x
  | Tuple es | List es => forallb p es
  | Dict ks vs => forallb p ks && forallb p vs
  | Subscript v s => p v && p s
  | ListComp x gs | GenExp x gs => p x && forallb p gs
  | CompFor t i ifs _ => p t && p i && forallb p ifs
  | Other _ _ cs => forallb p cs
  end.

Definition kw_ok_here (ops : list string) (e : expr) : bool :=
  match e with
  | Call (Attr _ m) _ kwn _ => if in_names ops m then match kwn with [] => true | _ => false end else true
  | _ => true
  end.

Fixpoint ops_kw_free (ops : list string) (e : expr) : bool :=
  kw_ok_here ops e && all_children (ops_kw_free ops) e.

(* Model of func_adl/ast/ast_hash.py : calc_ast_hash  =  md5(ast.dump(a).encode("utf-8")).hexdigest()

   [dump_raw] transcribes CPython 3.12 [ast.dump(node)] with its default arguments
   (annotate_fields=True, include_attributes=False, indent=None):

     for name in node._fields:
         try: value = getattr(node, name)
         except AttributeError: continue                       (slot value [None] here)
         if value is None and getattr(cls, name, ...) is None: continue      (flag [d] of the slot)
         args.append('%s=%s' % (name, _format(value)))
     '%s(%s)' % (cls.__name__, ', '.join(args))        lists: '[' + ', '.join(...) + ']'   else: repr(value)

   [_attributes] and every other non-field attribute are never read.  [repr] of str / bytes / int /
   bool / None / Ellipsis is transcribed from Objects/unicodeobject.c (unicode_repr),
   Objects/bytesobject.c (PyBytes_Repr) and longobject.c; float/complex are their repr tokens.
   [printable] is Py_UNICODE_ISPRINTABLE on code points >= 128 (a parameter: the Unicode database is
   not modelled; the correspondence run instantiates it with CPython's str.isprintable).

   [hash] returns [None] where the Python raises UnicodeEncodeError (a lone surrogate in the dump text - which
   CPython's repr never leaves unescaped).  Before fix F47 the bytes were [map ord] of the text and every code
   point above 255 raised ValueError. *)
From FA.Base Require Import Names.
From FA.Model Require Import GTree.
Local Open Scope N_scope.

Definition cps (s : string) : text := map N_of_ascii (list_ascii_of_string s).

(* ---------- repr ---------- *)

Definition hexdigit (d : N) : N := if d <? 10 then 48 + d else 87 + d.     (* 0123456789abcdef *)

(* k hexadecimal digits of n, most significant first (n < 16^k) *)
Fixpoint hexn (k : nat) (n : N) : text :=
  match k with
  | O => []
  | S k' => hexdigit (n / 16 ^ N.of_nat k') :: hexn k' (n mod 16 ^ N.of_nat k')
  end.

Definition SQ : N := 39.  (* single quote *)
Definition DQ : N := 34.  (* double quote *)
Definition BSL : N := 92. (* backslash *)

Definition mem_cp (c : N) (s : text) : bool := existsb (N.eqb c) s.

(* prefer single quotes; double quotes iff the text contains a single and no double quote *)
Definition pick_quote (s : text) : N :=
  if mem_cp SQ s && negb (mem_cp DQ s) then DQ else SQ.

Definition esc_common (q c : N) : option text :=
  if (c =? q) || (c =? BSL) then Some [BSL; c]
  else if c =? 9 then Some [BSL; 116]        (* \t *)
  else if c =? 10 then Some [BSL; 110]       (* \n *)
  else if c =? 13 then Some [BSL; 114]       (* \r *)
  else None.

Section Repr.
  Variable printable : N -> bool.

  Definition repr_char (q c : N) : text :=
    match esc_common q c with
    | Some t => t
    | None =>
        if (c <? 32) || (c =? 127) then BSL :: 120 :: hexn 2 c        (* \xhh *)
        else if c <? 127 then [c]
        else if printable c then [c]
        else if c <? 256 then BSL :: 120 :: hexn 2 c                  (* \xhh *)
        else if c <? 65536 then BSL :: 117 :: hexn 4 c                (* \uhhhh *)
        else BSL :: 85 :: hexn 8 c                                    (* \Uhhhhhhhh *)
    end.

  Definition repr_body (q : N) (s : text) : text := flat_map (repr_char q) s.

  Definition py_repr_str (s : text) : text :=
    let q := pick_quote s in q :: repr_body q s ++ [q].

  Definition repr_byte (q c : N) : text :=
    match esc_common q c with
    | Some t => t
    | None => if (c <? 32) || (127 <=? c) then BSL :: 120 :: hexn 2 c else [c]
    end.

  Definition py_repr_bytes (s : text) : text :=
    let q := pick_quote s in 98 :: q :: flat_map (repr_byte q) s ++ [q].

  Definition repr_atom (a : atom) : text :=
    match a with
    | AInt z => cps (z_to_string z)
    | ABool true => cps "True"
    | ABool false => cps "False"
    | AStr s => py_repr_str s
    | ABytes s => py_repr_bytes s
    | ANone => cps "None"
    | AEllipsis => cps "Ellipsis"
    | AFloat t => cps t
    | AComplex t => cps t
    end.

  (* ---------- ast.dump ---------- *)

  Definition join_sep (l : list text) : text :=      (* ', '.join(l) *)
    match l with
    | [] => []
    | x :: xs => x ++ flat_map (fun y => 44 :: 32 :: y) xs
    end.

  Definition LP : N := 40. Definition RP : N := 41. Definition LB : N := 91. Definition RB : N := 93.
  Definition EQ : N := 61.

  (* on the structure *)
  Fixpoint dump (v : gval) : text :=
    match v with
    | GNode c fs =>
        cps c ++ LP :: join_sep (map (fun kv => cps (fst kv) ++ EQ :: dump (snd kv)) fs) ++ [RP]
    | GList l => LB :: join_sep (map dump l) ++ [RB]
    | GAtom a => repr_atom a
    end.

  (* on the raw node: the transcription of ast.dump *)
  Fixpoint dump_raw (v : rval) : text :=
    match v with
    | RNode c fs _ =>
        cps c ++ LP ::
        join_sep ((fix args (l : list (string * bool * option rval)) : list text :=
                     match l with
                     | [] => []
                     | (k, d, Some x) :: xs =>
                         if d && is_none x then args xs else (cps k ++ EQ :: dump_raw x) :: args xs
                     | (_, _, None) :: xs => args xs
                     end) fs) ++ [RP]
    | RList l => LB :: join_sep (map dump_raw l) ++ [RB]
    | RAtom a => repr_atom a
    end.

  (* ---------- calc_ast_hash ---------- *)
  Variable md5 : text -> text.      (* bytes -> hex digest *)

  (* ast.dump(a).encode("utf-8") (F47; before that fix: bytearray(map(ord, ...)), which raised ValueError on every
     code point above 255).  [None] = UnicodeEncodeError: a lone surrogate in the text (CPython's repr escapes them,
     so no dump contains one when [printable] is CPython's) or a number that is not a code point at all. *)
  Definition utf8_cp (c : N) : text :=
    if c <? 128 then [c]
    else if c <? 2048 then [192 + c / 64; 128 + c mod 64]
    else if c <? 65536 then [224 + c / 4096; 128 + (c / 64) mod 64; 128 + c mod 64]
    else [240 + c / 262144; 128 + (c / 4096) mod 64; 128 + (c / 64) mod 64; 128 + c mod 64].
  Definition utf8 (t : text) : text := flat_map utf8_cp t.
  Definition encodable (c : N) : bool := (c <? 55296) || ((57343 <? c) && (c <? 1114112)).

  Definition hash_input (t : text) : option text :=
    if forallb encodable t then Some (utf8 t) else None.

  Definition ghash (v : gval) : option text := option_map md5 (hash_input (dump v)).
  Definition hash (v : rval) : option text := option_map md5 (hash_input (dump_raw v)).
End Repr.

(* ---------- well-formedness of real trees (boolean, extracted and evaluated on every corpus tree) ---------- *)

Definition is_alpha_ (c : N) : bool :=
  ((65 <=? c) && (c <=? 90)) || ((97 <=? c) && (c <=? 122)) || (c =? 95).
Definition is_digit (c : N) : bool := (48 <=? c) && (c <=? 57).

Definition is_ident (s : string) : bool :=
  match cps s with
  | [] => false
  | c :: r => is_alpha_ c && forallb (fun c => is_alpha_ c || is_digit c) r
  end.

(* characters of float repr tokens: digits . e + - and the letters of inf / nan *)
Definition is_fchar (c : N) : bool :=
  is_digit c || (c =? 46) || (c =? 101) || (c =? 43) || (c =? 45) || (c =? 105) || (c =? 110) || (c =? 102) || (c =? 97).
Definition is_fmark (c : N) : bool := (c =? 46) || (c =? 101) || (c =? 110).   (* . e n : absent from int reprs *)
Definition is_cchar (c : N) : bool := is_fchar c || (c =? 106).                 (* + j *)

Definition wf_float (t : string) : bool :=
  let l := cps t in negb (match l with [] => true | _ => false end) && forallb is_fchar l && existsb is_fmark l.

Definition wf_cword (l : text) : bool :=
  negb (match l with [] => true | _ => false end) && forallb is_cchar l.

(* "(body)" -> body *)
Definition unparen (l : text) : option text :=
  match l with
  | [] => None
  | c :: r =>
      if c =? 40 then
        match rev r with
        | [] => None
        | d :: b => if d =? 41 then Some (rev b) else None
        end
      else None
  end.

Definition wf_complex (t : string) : bool :=
  match unparen (cps t) with
  | Some b => wf_cword b
  | None => wf_cword (cps t) && mem_cp 106 (cps t)
  end.

Definition wf_atom (a : atom) : bool :=
  match a with
  | AStr s => forallb (fun c => c <? 1114112) s
  | ABytes s => forallb (fun c => c <? 256) s
  | AFloat t => wf_float t
  | AComplex t => wf_complex t
  | _ => true
  end.

Fixpoint wf (v : gval) : bool :=
  match v with
  | GNode c fs => is_ident c && forallb (fun kv => is_ident (fst kv) && wf (snd kv)) fs
  | GList l => forallb wf l
  | GAtom a => wf_atom a
  end.

(* Heap of Python AST node *objects* (work package "stream": C11, C12, C16).

   The pure expression tree of Base/PyAst.v is the wrong object for statements about aliasing:
   ObjectStreams share node objects with their ancestors, QMetaData hangs a non-field attribute on a
   shallow copy of a node, EventDataset hangs the executor on the root call node.  Here:

   * [gtree X]   generic tree, exactly what [ast.iter_fields] exposes: class name and, per field, either one
                 value or a list of values, each value a node or a non-node Python value ([Leaf]); every node
                 carries an annotation of type [X].  [tree := gtree unit] is what [ast.dump] shows;
                 [atree := gtree attrs] additionally keeps the non-field attributes of every node.
                 Nodes of classes without fields (Load, Gt, Add ...) are encoded as leaves: no modelled code
                 sets attributes on them.
   * [heap]      list of node objects, NEWEST FIRST; the address of an object is its allocation index
                 (= length of the tail behind it).  Allocation = cons.
   * [unfold]    the unfolding of the object graph below an address into an [atree] (sharing forgotten, as
                 every Python visitor sees it), computed by structural recursion on the heap: the table
                 entry of an object is built from the entries of OLDER objects only, so an object whose
                 field mentions an address >= its own has no unfolding ([None]).
   * [alloc]     allocation of a whole tree given with references to existing stream roots ([itree]).
   No proofs in this file. *)
From Coq Require Import String List Arith Bool.
Import ListNotations.
Open Scope string_scope.

(* ---------------------------------------------------------------- results *)
Inductive err :=
  | EAttribute | EIndex | EType | EValue          (* the Python exception classes the modelled code can raise *)
  | ENoRoot | EManyRoots                          (* find_EventDataset's two "Exception(...)"s *)
  | EBadStream | EBadRef | EBadTree | EBadCall | EDangling.   (* ill-formed history (never produced by the harness) *)
Inductive res (A : Type) := Ok (a : A) | Err (e : err).
Arguments Ok {A} a.
Arguments Err {A} e.

(* ---------------------------------------------------------------- generic trees *)
(* a non-node Python value in a field: [AStr] a str, [ARaw] anything else by a type-tagged repr
   ("i:5", "None", "b:True", "f:1.5", "c:Load" for a field-less node ...) *)
Inductive atom := AStr (s : string) | ARaw (s : string).
Inductive fkind := KOne | KList.

Inductive gtree (X : Type) :=
  | Leaf (a : atom)
  | G (x : X) (cls : string) (fields : list (string * fkind * list (gtree X))).
Arguments Leaf {X} a.
Arguments G {X} x cls fields.

Definition atom_eqb (a b : atom) : bool :=
  match a, b with
  | AStr s, AStr t => String.eqb s t
  | ARaw s, ARaw t => String.eqb s t
  | _, _ => false
  end.

Definition none_atom : atom := ARaw "None".

Fixpoint gmap {X Y} (f : X -> Y) (t : gtree X) : gtree Y :=
  match t with
  | Leaf a => Leaf a
  | G x cls fs => G (f x) cls (map (fun fl => (fst fl, map (gmap f) (snd fl))) fs)
  end.

Fixpoint assoc {A} (k : string) (l : list (string * A)) : option A :=
  match l with
  | [] => None
  | (k', v) :: r => if String.eqb k k' then Some v else assoc k r
  end.

(* d[k] = v on an association list (first binding is the live one; position kept if present) *)
Fixpoint assoc_set {A} (k : string) (v : A) (l : list (string * A)) : list (string * A) :=
  match l with
  | [] => [(k, v)]
  | (k', v') :: r => if String.eqb k k' then (k, v) :: r else (k', v') :: assoc_set k v r
  end.

Definition get_field {T} (n : string) (fs : list (string * fkind * T)) : option (fkind * T) :=
  match find (fun fl => String.eqb n (fst (fst fl))) fs with
  | Some fl => Some (snd (fst fl), snd fl)
  | None => None
  end.

(* ---------------------------------------------------------------- attributes and nodes *)
Inductive exid := EDs (d : nat) | EOv (k : nat).   (* dataset d's execute_result_async | an override executor *)
Inductive aval :=
  | AExec (e : exid)                    (* _func_adl_executor *)
  | AEds (d : nat)                      (* _eds_object *)
  | AQmd (d : list (string * atom)).    (* _q_metadata : a Python dict *)
Definition attrs := list (string * aval).

Definition tree := gtree unit.
Definition atree := gtree attrs.
Definition erase {X} (t : gtree X) : tree := gmap (fun _ => tt) t.

Definition addr := nat.
Inductive hv := HA (a : addr) | HL (a : atom).
Record node := mknode { ncls : string; nfields : list (string * fkind * list hv); nattrs : attrs }.
Definition heap := list node.     (* newest first *)

(* index from the old end: entry [a] of a newest-first list *)
Definition tget {A} (t : list A) (a : nat) : option A :=
  let n := length t in if Nat.ltb a n then nth_error t (n - S a)%nat else None.

Definition hget (h : heap) (a : addr) : option node := tget h a.
Definition halloc (h : heap) (n : node) : heap * addr := (n :: h, length h).

(* copy.copy(node): a new object with the same field values and the same __dict__ entries *)
Definition hcopy (h : heap) (a : addr) : option (heap * addr) :=
  match hget h a with Some n => Some (halloc h n) | None => None end.

(* in-place update of the object at address [a] *)
Fixpoint hupd (h : heap) (a : addr) (f : node -> node) : heap :=
  match h with
  | [] => []
  | n :: r => if Nat.eqb a (length r) then f n :: r else n :: hupd r a f
  end.
(* setattr(node, k, v) for a non-field attribute *)
Definition set_attr (h : heap) (a : addr) (k : string) (v : aval) : heap :=
  hupd h a (fun n => mknode (ncls n) (nfields n) (assoc_set k v (nattrs n))).

(* ---------------------------------------------------------------- unfolding *)
Fixpoint sequence {A} (l : list (option A)) : option (list A) :=
  match l with
  | [] => Some []
  | None :: _ => None
  | Some x :: r => match sequence r with Some r' => Some (x :: r') | None => None end
  end.

Definition unfold_hv (tbl : list (option atree)) (v : hv) : option atree :=
  match v with
  | HL a => Some (Leaf a)
  | HA a => match tget tbl a with Some (Some t) => Some t | _ => None end
  end.

Definition unfold_field (tbl : list (option atree)) (fl : string * fkind * list hv)
  : option (string * fkind * list atree) :=
  match sequence (map (unfold_hv tbl) (snd fl)) with
  | Some kids => Some (fst fl, kids)
  | None => None
  end.

Definition unfold_node (tbl : list (option atree)) (n : node) : option atree :=
  match sequence (map (unfold_field tbl) (nfields n)) with
  | Some fs => Some (G (nattrs n) (ncls n) fs)
  | None => None
  end.

Fixpoint unfold_tbl (h : heap) : list (option atree) :=
  match h with
  | [] => []
  | n :: r => let t := unfold_tbl r in unfold_node t n :: t
  end.

Definition unfold (h : heap) (a : addr) : option atree :=
  match tget (unfold_tbl h) a with Some (Some t) => Some t | _ => None end.
Definition unfold_v (h : heap) (v : hv) : option atree := unfold_hv (unfold_tbl h) v.

(* what ast.dump shows of the object at [a] *)
Definition abs (h : heap) (a : addr) : option tree := option_map erase (unfold h a).
Definition abs_v (h : heap) (v : hv) : option tree := option_map erase (unfold_v h v).

(* ---------------------------------------------------------------- allocating a tree *)
(* a tree handed to the library: new node objects ([INew], with the attributes they are born with) whose
   fields may mention the root object of an existing stream ([IRef sid]) *)
Inductive ianno := IRef (s : nat) | INew (at_ : attrs).
Definition itree := gtree ianno.

Fixpoint alloc (rs : list addr) (it : itree) (h : heap) {struct it} : res (heap * hv) :=
  match it with
  | Leaf a => Ok (h, HL a)
  | G (IRef s) _ _ => match nth_error rs s with Some r => Ok (h, HA r) | None => Err EBadRef end
  | G (INew at_) cls fs =>
      let fields :=
        (fix afs (fs : list (string * fkind * list itree)) (h : heap) {struct fs}
           : res (heap * list (string * fkind * list hv)) :=
           match fs with
           | [] => Ok (h, [])
           | fl :: r =>
               let kids :=
                 (fix aks (ks : list itree) (h : heap) {struct ks} : res (heap * list hv) :=
                    match ks with
                    | [] => Ok (h, [])
                    | k :: kr =>
                        match alloc rs k h with
                        | Err e => Err e
                        | Ok (h1, v) =>
                            match aks kr h1 with
                            | Err e => Err e
                            | Ok (h2, vs) => Ok (h2, v :: vs)
                            end
                        end
                    end) (snd fl) h in
               match kids with
               | Err e => Err e
               | Ok (h1, vs) =>
                   match afs r h1 with
                   | Err e => Err e
                   | Ok (h2, fs') => Ok (h2, (fst fl, vs) :: fs')
                   end
               end
           end) fs h in
      match fields with
      | Err e => Err e
      | Ok (h', fs') => Ok (mknode cls fs' at_ :: h', HA (length h'))
      end
  end.

(* the atree an itree stands for, given the unfoldings of the referenced roots *)
Fixpoint inst (rho : nat -> option atree) (it : itree) : option atree :=
  match it with
  | Leaf a => Some (Leaf a)
  | G (IRef s) _ _ => rho s
  | G (INew at_) cls fs =>
      match sequence (map (fun fl =>
               match sequence (map (inst rho) (snd fl)) with
               | Some ks => Some (fst fl, ks)
               | None => None
               end) fs) with
      | Some fs' => Some (G at_ cls fs')
      | None => None
      end
  end.

(* an atree as a tree to allocate: every node new, born with the attributes of the original *)
Definition fresh_of (t : atree) : itree := gmap INew t.

Fixpoint ref_free (it : itree) : bool :=
  match it with
  | Leaf _ => true
  | G (IRef _) _ _ => false
  | G (INew _) _ fs => forallb (fun fl => forallb ref_free (snd fl)) fs
  end.

(* no node of the tree is born with attributes (what the user can write down as an ast) *)
Fixpoint plain (it : itree) : bool :=
  match it with
  | Leaf _ => true
  | G (IRef _) _ _ => true
  | G (INew at_) _ fs => match at_ with [] => forallb (fun fl => forallb plain (snd fl)) fs | _ => false end
  end.

(* Generic, field-level view of Python [ast] trees: exactly what [ast.iter_fields] / [ast.dump]
   can see, used where field-level fidelity matters (C20).

   Two layers.

   * [rval]  ("raw"): a node as it sits in the Python heap - class name, every name of
     [cls._fields] in order with (a) whether the class declares a [None] default for it
     ([getattr(cls, name, ...) is None]) and (b) the value, [None] when [getattr(node, name)]
     raises AttributeError; plus the non-field attributes of the node ([lineno], [col_offset],
     [_func_adl_executor], [_q_metadata], [_eds_object], ...) as opaque (name, token) pairs.
   * [gval]  ("structure"): what is left when the attributes, the missing fields and the
     [None]-valued optional fields are erased ([erase]).  [ast.dump] with default options is a
     function of this structure (theorem [dump_raw_erase]) and determines it (theorem [dump_injective]).

   Text is a list of Unicode code points ([list N]), not bytes: CPython's [repr] and
   [calc_ast_hash]'s [map(ord, ...)] both work on code points.  Class and field names are Coq
   strings (ASCII identifiers; checked by [wf]).  Floats and complex numbers are opaque [repr]
   tokens: no model does float arithmetic. *)
From Coq Require Export String List ZArith NArith Bool Ascii.
Export ListNotations.
Open Scope list_scope.

Definition text := list N.

Inductive atom :=
 | AInt (z : Z)
 | ABool (b : bool)
 | AStr (s : text)               (* code points of the Python str (surrogates allowed) *)
 | ABytes (s : text)             (* byte values, each < 256 *)
 | ANone
 | AEllipsis
 | AFloat (tok : string)         (* repr token, e.g. "1.0", "1e-05", "inf", "-inf", "nan" *)
 | AComplex (tok : string).      (* repr token, e.g. "1j", "(1+2j)", "(-0-1j)" *)

Inductive gval :=
 | GNode (cls : string) (fields : list (string * gval))
 | GList (l : list gval)
 | GAtom (a : atom).

(* a field slot of a raw node: name, "class declares a None default", value (None = attribute missing) *)
Inductive rval :=
 | RNode (cls : string) (fields : list (string * bool * option rval)) (attrs : list (string * string))
 | RList (l : list rval)
 | RAtom (a : atom).

(* ---------- nested induction principles ---------- *)

Section GvalInd.
  Variable P : gval -> Prop.
  Hypothesis HNode : forall c fs, Forall (fun kv => P (snd kv)) fs -> P (GNode c fs).
  Hypothesis HList : forall l, Forall P l -> P (GList l).
  Hypothesis HAtom : forall a, P (GAtom a).

  Fixpoint gval_ind' (v : gval) : P v :=
    match v with
    | GNode c fs =>
        HNode c fs ((fix all (l : list (string * gval)) : Forall (fun kv => P (snd kv)) l :=
                       match l with
                       | [] => Forall_nil _
                       | (k, x) :: xs => Forall_cons (k, x) (gval_ind' x) (all xs)
                       end) fs)
    | GList l =>
        HList l ((fix all (l : list gval) : Forall P l :=
                    match l with
                    | [] => Forall_nil _
                    | x :: xs => Forall_cons x (gval_ind' x) (all xs)
                    end) l)
    | GAtom a => HAtom a
    end.
End GvalInd.

Definition Pslot (P : rval -> Prop) (s : string * bool * option rval) : Prop :=
  match snd s with Some x => P x | None => True end.

Section RvalInd.
  Variable P : rval -> Prop.
  Hypothesis HNode : forall c fs ats, Forall (Pslot P) fs -> P (RNode c fs ats).
  Hypothesis HList : forall l, Forall P l -> P (RList l).
  Hypothesis HAtom : forall a, P (RAtom a).

  Fixpoint rval_ind' (v : rval) : P v :=
    match v with
    | RNode c fs ats =>
        HNode c fs ats
          ((fix all (l : list (string * bool * option rval)) : Forall (Pslot P) l :=
              match l with
              | [] => Forall_nil _
              | (k, d, Some x) :: xs => Forall_cons (k, d, Some x) (rval_ind' x) (all xs)
              | (k, d, None) :: xs => Forall_cons (k, d, None) I (all xs)
              end) fs)
    | RList l =>
        HList l ((fix all (l : list rval) : Forall P l :=
                    match l with
                    | [] => Forall_nil _
                    | x :: xs => Forall_cons x (rval_ind' x) (all xs)
                    end) l)
    | RAtom a => HAtom a
    end.
End RvalInd.

(* ---------- erasure: what ast.dump can see ---------- *)

Definition is_none (v : rval) : bool :=
  match v with RAtom ANone => true | _ => false end.

Fixpoint erase (v : rval) : gval :=
  match v with
  | RNode c fs _ =>
      GNode c
        ((fix go (l : list (string * bool * option rval)) : list (string * gval) :=
            match l with
            | [] => []
            | (k, d, Some x) :: xs => if d && is_none x then go xs else (k, erase x) :: go xs
            | (_, _, None) :: xs => go xs
            end) fs)
  | RList l => GList (map erase l)
  | RAtom a => GAtom a
  end.

(* attribute update on the root node (setattr(node, name, value) for a non-field name) *)
Definition set_attrs (v : rval) (ats : list (string * string)) : rval :=
  match v with
  | RNode c fs _ => RNode c fs ats
  | _ => v
  end.

(* remove every non-field attribute, at every depth *)
Fixpoint strip (v : rval) : rval :=
  match v with
  | RNode c fs _ =>
      RNode c
        ((fix go (l : list (string * bool * option rval)) : list (string * bool * option rval) :=
            match l with
            | [] => []
            | (k, d, Some x) :: xs => (k, d, Some (strip x)) :: go xs
            | (k, d, None) :: xs => (k, d, None) :: go xs
            end) fs) []
  | RList l => RList (map strip l)
  | RAtom a => RAtom a
  end.

Fixpoint gsize (v : gval) : nat :=
  match v with
  | GNode _ fs => S ((fix go (l : list (string * gval)) : nat :=
                        match l with [] => 0 | (_, x) :: xs => gsize x + go xs end) fs)
  | GList l => S ((fix go (l : list gval) : nat := match l with [] => 0 | x :: xs => gsize x + go xs end) l)
  | GAtom _ => 1
  end.

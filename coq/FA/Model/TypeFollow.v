(* Model of func_adl/type_based_replacement.py: remap_by_types.type_transformer, _fill_in_default_arguments,
   _find_keyword, the callback plumbing, and of ObjectStream.Select/SelectMany/Where (object_stream.py) as
   far as types, the emitted lambda and the MetaData/callback events go.

   The algorithms are those of the repository with fixes/F09 F10 F11 F12 F16 F20 F21 applied.
   One function [follow] for one [type_transformer().visit]; a nested collection operator
   (process_method_call_on_stream_obj -> ObjectStream.Select(lambda, known_types)) is the recursive call on
   the lambda body, a sub-term, so the function is structurally recursive.

   Every place where the Python raises is an explicit result:
     Refuse r = ValueError (reason r)         Crash k = any other exception class.
   No proofs in this file. *)
From FA.Base Require Import PyAst Value.
From FA.Gen Require Import TablesUtil TablesTypes.
From FA.Model Require Import TypeDefs.

Inductive refusal :=
 | RMissingArg (p : string)        (* "Argument p is required" *)
 | RNotCallable                    (* the attribute found for a method call is a property *)
 | RWhereNotBool                   (* Where filter must return a boolean *)
 | RIfExp                          (* IfExp branches have different types *)
 | RBadConst                       (* check_ast: constant that cannot be transported *)
 | RTupleIndex                     (* slice of a tuple literal is not a constant integer *)
 | RTupleRange                     (* constant index outside the tuple literal *)
 | RDictKey                        (* attribute of a dict literal that is not one of its keys *)
 | RRecordKey                      (* attribute / constant subscript that is not a field of the record type *)
 | RNotLiteral                     (* ast.literal_eval refused a dict key, a record subscript or a [param] list *)
 | RNotParameterized.              (* property not registered with func_adl_parameterized_call *)

Inductive crash :=
 | CkNotLambda                     (* lambda_unwrap: Exception *)
 | CkAssert                        (* assert len(l_func.args.args) == 1 *)
 | CkStub                          (* a collection method that is not Select/SelectMany/Where is really called with an argument: TypeError *)
 | CkAttr                          (* AttributeError: key node without .value / getattr of a missing property *)
 | CkKey.                          (* KeyError: _found_types[node.operand] (only before fixes/F11.diff) *)

Inductive tres (A : Type) :=
 | Ok (a : A)
 | Refuse (r : refusal)
 | Crash (k : crash).
Arguments Ok {A} a.
Arguments Refuse {A} r.
Arguments Crash {A} k.

Definition bind {A B} (x : tres A) (f : A -> tres B) : tres B :=
  match x with Ok a => f a | Refuse r => Refuse r | Crash k => Crash k end.

Inductive event :=
 | EvCall (cb : string) (site : expr)                     (* callback cb invoked with this call site *)
 | EvParam (cb : string) (site : expr) (params : expr)    (* parameterized-property callback; params passed by value *)
 | EvMeta (md : expr).                                    (* stream = stream.MetaData(md) *)

(* ---------- _fill_in_default_arguments / _find_keyword ---------- *)

Section Fill.
  Context {A : Type}.
  Variable mk_const : const -> A.          (* as_literal(default) *)

  (* _find_keyword: first keyword with that name, and the list without it *)
  Fixpoint find_keyword (kws : list (option string * A)) (name : string) : option (A * list (option string * A)) :=
    match kws with
    | [] => None
    | (k, v) :: r =>
        if ostr_eqb k (Some name) then Some (v, r)
        else match find_keyword r name with
             | Some (a, r') => Some (a, (k, v) :: r')
             | None => None
             end
    end.

  Definition skipped (n : string) : bool := existsb (String.eqb n) fill_skipped_params.

  (* `i_arg += 1` at the end of the loop body (absent before fixes/F09.diff: read from the source) *)
  Definition next_arg (i : nat) : nat := if fill_increments then S i else i.

  (* the loop over sig.parameters; [i] is i_arg.  inr p = "Argument p is required" *)
  Fixpoint fill_go (ps : list param) (i : nat) (args : list A) (kws : list (option string * A))
    : (list A * list (option string * A)) + string :=
    match ps with
    | [] => inl (args, kws)
    | p :: r =>
        if skipped (p_name p) then fill_go r i args kws
        else if Nat.leb (length args) i then
          match find_keyword kws (p_name p) with
          | Some (a, kws') => fill_go r (next_arg i) (args ++ [a]) kws'
          | None =>
              match p_default p with
              | Some d => fill_go r (next_arg i) (args ++ [mk_const d]) kws
              | None => inr (p_name p)
              end
          end
        else fill_go r (next_arg i) args kws
    end.

  Definition fill (ps : list param) (args : list A) (kws : list (option string * A)) :=
    fill_go ps 0 args kws.
End Fill.

(* ---------- literal_eval, as far as its result is looked at ---------- *)

Inductive lit := LStr (s : string) | LHashable | LUnhashable.

Definition is_num_const (c : const) : bool :=
  match c with CInt _ | CFloat _ | CComplex _ => true | _ => false end.   (* bool is excluded by literal_eval *)

Definition signed_num (e : expr) : bool :=
  match e with
  | Const c => is_num_const c
  | UnaryOp USub (Const c) | UnaryOp UAdd (Const c) => is_num_const c
  | _ => false
  end.

Fixpoint literal_eval (e : expr) : option lit :=
  let all := fix all (l : list expr) : option bool :=      (* Some hashable? *)
               match l with
               | [] => Some true
               | x :: xs =>
                   obind (literal_eval x) (fun lx => obind (all xs) (fun h =>
                     Some (match lx with LUnhashable => false | _ => h end)))
               end in
  match e with
  | Const (CStr s) => Some (LStr s)
  | Const _ => Some LHashable
  | Tuple es => obind (all es) (fun h => Some (if h then LHashable else LUnhashable))
  | List es => obind (all es) (fun _ => Some LUnhashable)
  | Dict ks vs => obind (all ks) (fun _ => obind (all vs) (fun _ => Some LUnhashable))
  | UnaryOp USub (Const c) | UnaryOp UAdd (Const c) => if is_num_const c then Some LHashable else None
  | BinOp BAdd l (Const (CComplex _)) | BinOp BSub l (Const (CComplex _)) =>
      if signed_num l then Some LHashable else None
  | _ => None
  end.

(* ---------- check_ast ---------- *)

Definition legal_const (c : const) : bool := existsb (ckind_eqb (kind_of_const c)) legal_const_kinds.

Fixpoint check_ast (e : expr) : bool :=
  let all := fix all (l : list expr) : bool := match l with [] => true | x :: xs => check_ast x && all xs end in
  match e with
  | Name _ | Raw _ => true
  | Const c => legal_const c
  | Attr v _ => check_ast v
  | Call f xs _ kv => check_ast f && all xs && all kv
  | Lambda _ b => check_ast b
  | UnaryOp _ x => check_ast x
  | BinOp _ x y => check_ast x && check_ast y
  | BoolOp _ xs => all xs
  | Compare x _ xs => check_ast x && all xs
  | IfExp c t f => check_ast c && check_ast t && check_ast f
  | Tuple xs | List xs => all xs
  | Dict ks vs => all ks && all vs
  | Subscript v s => check_ast v && check_ast s
  | ListComp x gs | GenExp x gs => check_ast x && all gs
  | CompFor t i fs _ => check_ast t && check_ast i && all fs
  | Other _ ats cs => all cs
  end.

(* ---------- small pieces of the visitors ---------- *)

(* str.isidentifier and keyword.iskeyword on ASCII names (the F12 guard in visit_Dict) *)
Definition is_alpha_ (c : Ascii.ascii) : bool :=
  let n := Ascii.nat_of_ascii c in
  (Nat.leb 65 n && Nat.leb n 90) || (Nat.leb 97 n && Nat.leb n 122) || Nat.eqb n 95.
Definition is_digit (c : Ascii.ascii) : bool :=
  let n := Ascii.nat_of_ascii c in Nat.leb 48 n && Nat.leb n 57.
Fixpoint all_chars (p : Ascii.ascii -> bool) (s : string) : bool :=
  match s with EmptyString => true | String c r => p c && all_chars p r end.
Definition is_identifier (s : string) : bool :=
  match s with
  | EmptyString => false
  | String c r => is_alpha_ c && all_chars (fun x => is_alpha_ x || is_digit x) r
  end.
Definition valid_field_name (s : string) : bool :=
  is_identifier s && negb (existsb (String.eqb s) python_keywords).

Fixpoint no_dups (l : list string) : bool :=
  match l with [] => true | x :: r => negb (existsb (String.eqb x) r) && no_dups r end.

(* list(dict(fields).items()): a key given twice keeps its first position and its last value (F44) *)
Fixpoint upd_field (n : string) (t : ty) (l : list (string * ty)) : list (string * ty) :=
  match l with
  | [] => [(n, t)]
  | (k, v) :: r => if String.eqb k n then (k, t) :: r else (k, v) :: upd_field n t r
  end.
Fixpoint dedupe_from (acc : list (string * ty)) (ns : list string) (ts : list ty) : list (string * ty) :=
  match ns, ts with
  | n :: ns', t :: ts' => dedupe_from (upd_field n t acc) ns' ts'
  | _, _ => acc
  end.
Definition dedupe_last (ns : list string) (ts : list ty) : list (string * ty) := dedupe_from [] ns ts.

(* visit_Dict: the record type of a dict literal *)
Fixpoint key_lits (ks : list expr) : option (list lit) :=
  match ks with
  | [] => Some []
  | k :: r => obind (literal_eval k) (fun l => obind (key_lits r) (fun ls => Some (l :: ls)))
  end.

Fixpoint lit_names (ls : list lit) : option (list string) :=
  match ls with
  | [] => Some []
  | LStr s :: r => obind (lit_names r) (fun ns => Some (s :: ns))
  | _ :: _ => None
  end.

Definition dict_type (ks : list expr) (tvs : list ty) : tres ty :=
  match key_lits ks with
  | None => Refuse RNotLiteral
  | Some ls =>
      match lit_names ls with
      | Some ns =>
          if forallb valid_field_name ns
          then let d := dedupe_last ns tvs in Ok (TRecord (map fst d) (map snd d))
          else Ok TAny
      | None => Ok TAny
      end
  end.

(* "zip" test of visit_Attribute: attr.lower() == "zip" on ASCII *)
Definition lower_ascii (c : Ascii.ascii) : Ascii.ascii :=
  let n := Ascii.nat_of_ascii c in
  if Nat.leb 65 n && Nat.leb n 90 then Ascii.ascii_of_nat (n + 32) else c.
Fixpoint lower (s : string) : string :=
  match s with EmptyString => EmptyString | String c r => String (lower_ascii c) (lower r) end.
Definition is_zip (a : string) : bool := String.eqb (lower a) "zip".

(* key_index of visit_Attribute: None = a key node has no .value (AttributeError) *)
Fixpoint key_index (ks : list expr) (a : string) (i : nat) : option (list nat) :=
  match ks with
  | [] => Some []
  | Const c :: r =>
      obind (key_index r a (S i)) (fun l =>
        Some (match c with CStr s => if String.eqb s a then i :: l else l | _ => l end))
  | _ :: _ => None
  end.

(* nodes for which the transformer records no type at all (relevant only before fixes/F11.diff, where
   visit_UnaryOp indexes the type map directly) *)
Definition no_entry_shape (x' : expr) (t : ty) : bool :=
  match x' with
  | Attr _ _ => is_any t
  | Tuple _ | List _ | Other _ _ _ | ListComp _ _ | GenExp _ _ | CompFor _ _ _ _ | Raw _ => true
  | Call (Attr _ _) _ _ _ => false
  | Call _ _ _ _ => is_any t
  | _ => false
  end.

Section Visitors.
  Variable W : world.
  Let ct := w_ct W.

  (* visit_Attribute after generic_visit: v' the visited value, tv its type, aux the types of the values
     when v' is a dict literal *)
  Definition attr_type (a : string) (v' : expr) (tv : ty) (aux : list ty) : tres ty :=
    match v' with
    | Dict ks _ =>
        match key_index ks a 0 with
        | None => Crash CkAttr
        | Some [] => if is_zip a then Ok TAny else Refuse RDictKey
        | Some (i :: l) => Ok (nth (last l i) aux TAny)          (* a key given twice: the last one counts (F44) *)
        end
    | _ =>
        match record_fields ct tv with
        | Some (ns, ts) => match assoc2 a ns ts with Some t => Ok t | None => Refuse RRecordKey end
        | None => Ok TAny
        end
    end.

  (* visit_Subscript after generic_visit *)
  Definition subscript_type (v' : expr) (tv : ty) (aux : list ty) (s' : expr) : tres ty :=
    match v' with
    | Tuple es =>
        match s' with
        | Const c =>
            let idx := match c with CInt z => Some z | CBool b => Some (if b then 1 else 0)%Z | _ => None end in
            match idx with
            | None => Refuse RTupleIndex
            | Some z =>
                let n := Z.of_nat (length es) in
                if ((- n <=? z) && (z <? n))%Z
                then Ok (nth (Z.to_nat (if (z <? 0)%Z then n + z else z)%Z) aux TAny)
                else Refuse RTupleRange
            end
        | _ => Refuse RTupleIndex
        end
    | _ =>
        match record_fields ct tv with
        | Some (ns, ts) =>
            match literal_eval s' with
            | None => Refuse RNotLiteral
            | Some (LStr k) => match assoc2 k ns ts with Some t => Ok t | None => Refuse RRecordKey end
            | Some _ => Refuse RRecordKey
            end
        | None => Ok (unwrap_iterable ct tv)
        end
    end.

  (* `not x` is a boolean whatever x is; -x, +x, ~x keep the type of x (F43) *)
  Definition unary_type (o : uop) (t : ty) : ty := match o with UNot => TBool | _ => t end.

  Definition binop_type (o : bop) (tl tr : ty) : ty :=
    if is_any tl || is_any tr then TAny
    else if ty_eqb tl TFloat || ty_eqb tr TFloat then TFloat
    else match o with BDiv => TFloat | _ => TInt end.

  Definition numeric_or_any (t : ty) : bool := ty_eqb t TInt || ty_eqb t TFloat || is_any t.

  Definition ifexp_type (tt tf : ty) : tres ty :=
    if ty_eqb tt tf then Ok tt
    else if numeric_or_any tt && numeric_or_any tf then Ok TFloat
    else Refuse RIfExp.

  Definition name_type (G : tenv) (x : string) : ty :=
    match assoc x G with
    | Some t => t
    | None => match find_func (w_ft W) x with Some _ => TCallable | None => TAny end
    end.

  (* a callback at work: log entry, metadata, rewritten call site *)
  Definition apply_rw (rw : rewrite) (site : expr) : expr :=
    match rw with
    | RwId => site
    | RwRename n =>
        match site with
        | Call (Attr v _) args kwn kwv => Call (Attr v n) args kwn kwv
        | Call (Name _) args kwn kwv => Call (Name n) args kwn kwv
        | _ => site
        end
    | RwWrap f => Call (Name f) [site] [] []
    end.

  Definition md_events (s : cbspec) : list event :=
    match cb_md s with Some md => [EvMeta md] | None => [] end.

  Definition run_cb (cb : option string) (site : expr) : expr * list event :=
    match cb with
    | None => (site, [])
    | Some id =>
        let s := cb_spec (w_cb W) id in
        (apply_rw (cb_rw s) site, EvCall id site :: md_events s)
    end.

  (* process_method_callbacks: class callback, then method callback on the site the first returned *)
  Definition method_callbacks (bo : ty) (m : method) (site : expr) : expr * list event :=
    let '(s1, e1) := run_cb (class_cb ct bo) site in
    let '(s2, e2) := run_cb (m_cb m) s1 in
    (s2, e1 ++ e2).

  (* ObjectStream.Select / SelectMany / Where after remap_from_lambda: check_ast, the Where gate, item type *)
  Definition finish_op (op : opkind) (item : ty) (p : string) (r : expr * ty * list event)
    : tres (expr * ty * list event) :=
    let '(b', t, ev) := r in
    let lam := Lambda [p] b' in
    if negb (check_ast lam) then Refuse RBadConst
    else match op with
         | OpSelect => Ok (lam, t, ev)
         | OpSelectMany => Ok (lam, unwrap_iterable ct t, ev)
         | OpWhere => if ty_eqb t TBool then Ok (lam, item, ev) else Refuse RWhereNotBool
         | _ => Crash CkStub
         end.

  (* an argument of a call, visited, with what following it as an operator lambda would give *)
  Inductive narg :=
   | NNotLambda
   | NBadArity
   | NLam (p : string) (k : ty -> tres (expr * ty * list event)).    (* item type -> followed body *)

  Definition aarg := (expr * narg)%type.
  Definition aexpr (a : aarg) : expr := fst a.
  Definition mk_const_arg (c : const) : aarg := (Const c, NNotLambda).
  Definition is_lambda (e : expr) : bool := match e with Lambda _ _ => true | _ => false end.

  Fixpoint zip_kw (kwn : list (option string)) (kwv : list aarg) : list (option string * aarg) :=
    match kwn, kwv with
    | k :: ks, v :: vs => (k, v) :: zip_kw ks vs
    | _, _ => []
    end.

  Record mres := {
    mr_node : expr; mr_ty : ty; mr_full : bool; mr_obj : option (ty * method); mr_ev : list event }.

  (* process_method_call_on_stream_obj, reached through type_follow_in_callbacks *)
  Definition follow_on_stream_obj (bo : ty) (m : method) (f' : expr) (args : list aarg)
             (kws : list (option string * aarg)) : tres (option mres) :=
    match bo with
    | TCls c targs =>
        if is_collection ct c then
          match targs with
          | [] => Crash CkAttr          (* get_args(...)[0]: IndexError; never for c[item] candidates *)
          | item :: _ =>
              let kwn := map fst kws in
              let kwv := map (fun kv => aexpr (snd kv)) kws in
              match args with
              | [] =>
                  let t := match m_op m with OpFirst => item | _ => TAny end in
                  Ok (Some {| mr_node := Call f' [] kwn kwv; mr_ty := t; mr_full := true;
                              mr_obj := Some (bo, m); mr_ev := [] |})
              | [a] =>
                  match m_op m with
                  | OpSelect | OpSelectMany | OpWhere =>
                      match snd a with
                      | NNotLambda => Crash CkNotLambda
                      | NBadArity => Crash CkAssert
                      | NLam p k =>
                          bind (k item) (fun r =>
                          bind (finish_op (m_op m) item p r) (fun '(lam, t, ev) =>
                            Ok (Some {| mr_node := Call f' [lam] kwn kwv; mr_ty := TIter t; mr_full := true;
                                        mr_obj := Some (bo, m); mr_ev := ev |})))
                      end
                  | _ => Crash CkStub
                  end
              | _ => Ok None
              end
          end
        else Ok None
    | _ => Ok None
    end.

  (* the candidate loop of process_method_call *)
  Fixpoint method_loop (cands : list ty) (a : string) (f' : expr) (args : list aarg)
           (kws : list (option string * aarg)) (last : option mres) : tres (option mres) :=
    match cands with
    | [] => Ok last
    | bo :: rest =>
        match get_method_and_class ct bo a with
        | None => method_loop rest a f' args kws last
        | Some (_, MProp _) => Refuse RNotCallable
        | Some (mcls, MMethod m) =>
            match fill mk_const_arg (m_params m) args kws with
            | inr p => Refuse (RMissingArg p)
            | inl (args2, kws2) =>
                let ret := resolve_type_vars ct (match m_ret m with Some t => t | None => TAny end) bo mcls in
                let has_lam := existsb (fun x => is_lambda (aexpr x)) args2 in
                let node2 := Call f' (map aexpr args2) (map fst kws2) (map (fun kv => aexpr (snd kv)) kws2) in
                let last1 :=
                  match ret with
                  | Some t => Some {| mr_node := node2; mr_ty := t; mr_full := negb has_lam;
                                      mr_obj := Some (bo, m); mr_ev := [] |}
                  | None => last
                  end in
                let need := match last1 with None => true | Some r => negb (mr_full r) end in
                bind (if need then follow_on_stream_obj bo m f' args2 kws2 else Ok None) (fun fr =>
                  let last2 := match fr with Some r => Some r | None => last1 end in
                  match last2 with
                  | Some r => if mr_full r then Ok last2 else method_loop rest a f' args kws last2
                  | None => method_loop rest a f' args kws last2
                  end)
            end
        end
    end.

  Definition candidates (tv : ty) : list ty :=
    tv :: (if is_iterable ct tv
           then map (fun c => TCls c [unwrap_iterable ct tv]) (collection_names ct)
           else []).

  (* the class whose callbacks a method call fires: the first candidate that has the method - the class the call is
     written against - also when a collection class further down the list provided the typing (F46) *)
  Fixpoint callback_target (cands : list ty) (a : string) : option (ty * method) :=
    match cands with
    | [] => None
    | bo :: r =>
        match get_method_and_class ct bo a with
        | Some (_, MMethod m) => Some (bo, m)
        | Some (_, MProp _) => None
        | None => callback_target r a
        end
    end.
  Definition callbacks_of (tv : ty) (a : string) (dflt : ty * method) : ty * method :=
    match callback_target (candidates tv) a with Some x => x | None => dflt end.

  (* process_method_call, after generic_visit: v' the visited receiver, tv its type *)
  Definition process_method_call (v' : expr) (tv : ty) (a : string) (args : list aarg)
             (kwn : list (option string)) (kwv : list aarg) : tres (expr * ty * list event) :=
    let f' := Attr v' a in
    let unchanged := Call f' (map aexpr args) kwn (map aexpr kwv) in
    bind (method_loop (candidates tv) a f' args (zip_kw kwn kwv) None) (fun best =>
      match best with
      | None => Ok (unchanged, TAny, [])
      | Some r =>
          match mr_obj r with
          | Some (bo, m) =>
              let '(cbo, cm) := callbacks_of tv a (bo, m) in
              let '(site, ev) := method_callbacks cbo cm (mr_node r) in
              Ok (site, mr_ty r, mr_ev r ++ ev)
          | None => Ok (mr_node r, mr_ty r, mr_ev r)
          end
      end).

  (* process_function_call: every exception inside becomes a ValueError *)
  Definition process_function_call (fn : func) (args : list expr) (kwn : list (option string)) (kwv : list expr)
    : tres (expr * ty * list event) :=
    let kws := (fix z (ks : list (option string)) (vs : list expr) :=
                  match ks, vs with k :: ks', v :: vs' => (k, v) :: z ks' vs' | _, _ => [] end) kwn kwv in
    match fill Const (f_params fn) args kws with
    | inr p => Refuse (RMissingArg p)
    | inl (args2, kws2) =>
        let node2 := Call (Name (f_name fn)) args2 (map fst kws2) (map snd kws2) in
        let '(site, ev) := run_cb (f_proc fn) node2 in
        Ok (site, match f_ret fn with Some t => t | None => TAny end, ev)
    end.

  (* process_parameterized_method_call: obj.prop[params](args) with obj of type tv (not Any) *)
  Definition process_parameterized (v' : expr) (tv : ty) (a : string) (s' : expr)
             (args : list expr) (kwn : list (option string)) (kwv : list expr)
    : tres (expr * ty * list event) :=
    match get_method_and_class ct tv a with
    | Some (_, MProp (Some id)) =>
        match literal_eval s' with
        | None => Refuse RNotLiteral
        | Some _ =>
            let t_node := Call (Attr v' a) args kwn kwv in
            let s := cb_spec (w_cb W) id in
            Ok (apply_rw (cb_rw s) t_node, cb_ty s, EvParam id t_node s' :: md_events s)
        end
    | Some (_, MProp None) => Refuse RNotParameterized
    | Some (_, MMethod _) => Refuse RNotParameterized          (* a function object is not in the property table *)
    | None => Crash CkAttr                                     (* getattr(obj_type, attr_name): AttributeError *)
    end.

  (* an immediately called lambda whose call binds each parameter to one positional argument *)
  Definition is_starred (e : expr) : bool :=
    match e with Other cls _ _ => String.prefix "Starred;" cls | _ => false end.
  Definition called_ok (ps : list string) (args : list expr) (kwn : list (option string)) (kwv : list expr) : bool :=
    Nat.eqb (length ps) (length args) && negb (existsb is_starred args)
    && match kwn with [] => true | _ => false end && match kwv with [] => true | _ => false end.
  Fixpoint bind_params (ps : list string) (ts : list ty) (G : tenv) : tenv :=
    match ps, ts with
    | p :: ps', t :: ts' => (p, t) :: bind_params ps' ts' G
    | _, _ => G
    end.

  (* ---------- the transformer ---------- *)

  (* result: visited node, its type ("Any" = none recorded), the types of its elements when it is a tuple or
     dict literal (looked up by visit_Subscript / visit_Attribute of the parent), events in order *)
  Definition fres := (expr * ty * list ty * list event)%type.

  (* generic_visit over a list of children, left to right; [rec] is the visitor *)
  Section Lists.
    Variable rec : expr -> tres fres.
    Fixpoint follow_list_with (l : list expr) : tres (list expr * list ty * list event) :=
      match l with
      | [] => Ok ([], [], [])
      | x :: xs =>
          bind (rec x) (fun '(x', t, _, ev) =>
          bind (follow_list_with xs) (fun '(xs', ts, evs) => Ok (x' :: xs', t :: ts, ev ++ evs)))
      end.
  End Lists.

  (* visited arguments [l'] of the written arguments [l], paired with the thunk that follows them as the lambda of
     a collection operator: [rec G' body] is the transformer with the type environment G' *)
  Section Nested.
    Variable rec : tenv -> expr -> tres fres.
    Variable G : tenv.
    Fixpoint nested_args_with (l : list expr) (l' : list expr) : list aarg :=
      match l, l' with
      | x :: xs, x' :: xs' =>
          (x', match x with
               | Lambda [p] b => NLam p (fun item =>
                                   bind (rec ((p, item) :: G) b) (fun '(b', t, _, ev) => Ok (b', t, ev)))
               | Lambda _ _ => NBadArity
               | _ => NNotLambda
               end) :: nested_args_with xs xs'
      | _, _ => []
      end.
  End Nested.

  Fixpoint follow_x (G : tenv) (e : expr) {struct e} : tres fres :=
    let fl := follow_list_with (follow_x G) in
    let nl := nested_args_with follow_x G in
    match e with
    | Name x => Ok (e, name_type G x, [], [])
    | Const c => Ok (e, const_type c, [], [])
    | Raw _ => Ok (e, TAny, [], [])
    | Lambda _ _ => Ok (e, TCallable, [], [])
    | Attr v a =>
        bind (follow_x G v) (fun '(v', tv, aux, ev) =>
        bind (attr_type a v' tv aux) (fun t => Ok (Attr v' a, t, [], ev)))
    | Subscript v s =>
        bind (follow_x G v) (fun '(v', tv, aux, ev1) =>
        bind (follow_x G s) (fun '(s', _, _, ev2) =>
        bind (subscript_type v' tv aux s') (fun t => Ok (Subscript v' s', t, [], ev1 ++ ev2))))
    | UnaryOp o x =>
        bind (follow_x G x) (fun '(x', t, _, ev) =>
          if unary_uses_lookup || negb (no_entry_shape x' t) then Ok (UnaryOp o x', unary_type o t, [], ev)
          else Crash CkKey)
    | BinOp o l r =>
        bind (follow_x G l) (fun '(l', tl, _, ev1) =>
        bind (follow_x G r) (fun '(r', tr, _, ev2) =>
          Ok (BinOp o l' r', binop_type o tl tr, [], ev1 ++ ev2)))
    | BoolOp o es =>
        bind (fl es) (fun '(es', _, ev) => Ok (BoolOp o es', TBool, [], ev))
    | Compare l ops rs =>
        bind (follow_x G l) (fun '(l', _, _, ev1) =>
        bind (fl rs) (fun '(rs', _, ev2) => Ok (Compare l' ops rs', TBool, [], ev1 ++ ev2)))
    | IfExp c t f =>
        bind (follow_x G c) (fun '(c', _, _, ev1) =>
        bind (follow_x G t) (fun '(t', ty1, _, ev2) =>
        bind (follow_x G f) (fun '(f', ty2, _, ev3) =>
        bind (ifexp_type ty1 ty2) (fun ty => Ok (IfExp c' t' f', ty, [], ev1 ++ ev2 ++ ev3)))))
    | Tuple es =>
        bind (fl es) (fun '(es', ts, ev) => Ok (Tuple es', TAny, ts, ev))
    | Dict ks vs =>
        bind (fl ks) (fun '(ks', _, ev1) =>
        bind (fl vs) (fun '(vs', tvs, ev2) =>
        bind (dict_type ks' tvs) (fun t => Ok (Dict ks' vs', t, tvs, ev1 ++ ev2))))
    | List es => bind (fl es) (fun '(es', _, ev) => Ok (List es', TAny, [], ev))
    | ListComp x gs =>
        bind (follow_x G x) (fun '(x', _, _, ev1) =>
        bind (fl gs) (fun '(gs', _, ev2) => Ok (ListComp x' gs', TAny, [], ev1 ++ ev2)))
    | GenExp x gs =>
        bind (follow_x G x) (fun '(x', _, _, ev1) =>
        bind (fl gs) (fun '(gs', _, ev2) => Ok (GenExp x' gs', TAny, [], ev1 ++ ev2)))
    | CompFor t i ifs a =>
        bind (follow_x G t) (fun '(t', _, _, ev1) =>
        bind (follow_x G i) (fun '(i', _, _, ev2) =>
        bind (fl ifs) (fun '(ifs', _, ev3) => Ok (CompFor t' i' ifs' a, TAny, [], ev1 ++ ev2 ++ ev3))))
    | Other cls ats cs => bind (fl cs) (fun '(cs', _, ev) => Ok (Other cls ats cs', TAny, [], ev))
    | Call f args kwn kwv =>
        match f with
        | Attr v a =>
            (* generic_visit: func (visit_Attribute), args, keyword values; then process_method_call *)
            bind (follow_x G v) (fun '(v', tv, aux, ev0) =>
            bind (attr_type a v' tv aux) (fun _ =>
            bind (fl args) (fun '(args', _, ev1) =>
            bind (fl kwv) (fun '(kwv', _, ev2) =>
            bind (process_method_call v' tv a (nl args args') kwn (nl kwv kwv')) (fun '(node, t, ev3) =>
              Ok (node, t, [], ev0 ++ ev1 ++ ev2 ++ ev3))))))
        | Subscript (Attr v a) s =>
            bind (follow_x G v) (fun '(v', tv, aux, ev0) =>
            bind (attr_type a v' tv aux) (fun ta =>
            bind (follow_x G s) (fun '(s', _, _, ev0') =>
            bind (subscript_type (Attr v' a) ta [] s') (fun _ =>
            bind (fl args) (fun '(args', _, ev1) =>
            bind (fl kwv) (fun '(kwv', _, ev2) =>
              if is_any tv && param_call_guarded
              then Ok (Call (Subscript (Attr v' a) s') args' kwn kwv', TAny, [], ev0 ++ ev0' ++ ev1 ++ ev2)
              else bind (process_parameterized v' tv a s' args' kwn kwv') (fun '(node, t, ev3) =>
                     Ok (node, t, [], ev0 ++ ev0' ++ ev1 ++ ev2 ++ ev3))))))))
        | Lambda ps b =>
            (* (lambda x, ...: body)(a, ...) (F45): the lambda is not visited as a value, the arguments are; when
               the call binds every parameter positionally the body is followed with the parameters typed by the
               arguments, and its type is the type of the call; otherwise the call is left alone *)
            bind (fl args) (fun '(args', ts, ev1) =>
            bind (fl kwv) (fun '(kwv', _, ev2) =>
              if called_ok ps args kwn kwv
              then bind (follow_x (bind_params ps ts G) b) (fun '(b', tb, _, ev3) =>
                     Ok (Call (Lambda ps b') args' kwn kwv', tb, [], ev1 ++ ev2 ++ ev3))
              else Ok (Call (Lambda ps b) args' kwn kwv', TAny, [], ev1 ++ ev2)))
        | _ =>
            bind (follow_x G f) (fun '(f', _, _, ev0) =>
            bind (fl args) (fun '(args', _, ev1) =>
            bind (fl kwv) (fun '(kwv', _, ev2) =>
              match f' with
              | Name x =>
                  match find_func (w_ft W) x with
                  | Some fn =>
                      bind (process_function_call fn args' kwn kwv') (fun '(node, t, ev3) =>
                        Ok (node, t, [], ev0 ++ ev1 ++ ev2 ++ ev3))
                  | None => Ok (Call f' args' kwn kwv', TAny, [], ev0 ++ ev1 ++ ev2)
                  end
              | _ => Ok (Call f' args' kwn kwv', TAny, [], ev0 ++ ev1 ++ ev2)
              end)))
        end
    end.

  (* remap_by_types: visited tree, lookup_type of the root, events *)
  Definition follow (G : tenv) (e : expr) : tres (expr * ty * list event) :=
    bind (follow_x G e) (fun '(e', t, _, ev) => Ok (e', t, ev)).

  (* ObjectStream.Select / SelectMany / Where on a stream of [item]s, called with an AST lambda and
     known_types = G0: the emitted lambda, the item type of the new stream, the events *)
  Definition stream_op (op : opkind) (G0 : tenv) (item : ty) (lam : expr) : tres (expr * ty * list event) :=
    match lam with
    | Lambda [p] b => bind (follow ((p, item) :: G0) b) (finish_op op item p)
    | Lambda _ _ => Crash CkAssert
    | _ => Crash CkNotLambda
    end.
End Visitors.

(* Specification side of C06 (definitions only; no proofs here).

   [bind_spec]: Python's binding of a call's positional and keyword arguments to the parameters
   [fields] of a constructor whose parameters are all positional-or-keyword - written
   independently of convert_call_to_dict, in the style of CPython's call protocol: positional
   arguments are bound to the leading parameters (a surplus one is an error), then the keywords are
   processed left to right, each one refused if it names no parameter or a parameter that is already
   bound; the resulting bindings are listed in parameter order (what
   inspect.Signature.bind_partial(...).arguments gives).  Omitted parameters are simply absent
   (the property speaks of the arguments given).  A [**kw] entry cannot be bound statically and is
   refused.

   [single_for], [no_comp], [gens_ok], [has_bad_comp]: the syntactic predicates the theorems use. *)
From FA.Base Require Import PyAst Value.
From FA.Model Require Import Sugar.

Fixpoint bind_pos (fields : list string) (args : list expr) : option (list (string * expr)) :=
  match args, fields with
  | [], _ => Some []
  | a :: args', f :: fields' => option_map (cons (f, a)) (bind_pos fields' args')
  | _ :: _, [] => None
  end.

Fixpoint bind_kws (fields : list string) (bound : list (string * expr))
                  (kws : list (option string * expr)) : bres :=
  match kws with
  | [] => BOk bound
  | (None, _) :: _ => BErr (UnknownArg None)
  | (Some k, v) :: rest =>
      if negb (mem_str k fields) then BErr (UnknownArg (Some k))
      else if mem_str k (map fst bound) then BErr (DupArg (Some k))
      else bind_kws fields (bound ++ [(k, v)]) rest
  end.

Fixpoint assoc_str (k : string) (l : list (string * expr)) : option expr :=
  match l with
  | [] => None
  | (k', v) :: rest => if String.eqb k k' then Some v else assoc_str k rest
  end.

Definition in_field_order (fields : list string) (bound : list (string * expr)) : list (string * expr) :=
  flat_map (fun f => match assoc_str f bound with Some v => [(f, v)] | None => [] end) fields.

Definition bind_spec (fields : list string) (args : list expr) (kws : list (option string * expr)) : bres :=
  match bind_pos fields args with
  | None => BErr TooManyArgs
  | Some pos =>
      match bind_kws fields pos kws with
      | BOk bound => BOk (in_field_order fields bound)
      | BErr r => BErr r
      end
  end.

(* the observable outcome: the same bindings, or a refusal (the code's ValueError; which of
   several simultaneous defects is named in the message is not part of the property) *)
Definition same_outcome (a b : bres) : Prop :=
  match a, b with
  | BOk x, BOk y => x = y
  | BErr _, BErr _ => True
  | _, _ => False
  end.

(* ---------- syntactic predicates ---------- *)

(* every comprehension has exactly one [for] clause, and [comprehension] nodes occur nowhere else *)
Fixpoint single_for (e : expr) : bool :=
  match e with
  | Name _ | Const _ | Raw _ => true
  | Attr v _ => single_for v
  | Call g args _ kwv => single_for g && forallb single_for args && forallb single_for kwv
  | Lambda _ b => single_for b
  | UnaryOp _ x => single_for x
  | BinOp _ l r => single_for l && single_for r
  | BoolOp _ es => forallb single_for es
  | Compare l _ rs => single_for l && forallb single_for rs
  | IfExp c t x => single_for c && single_for t && single_for x
  | Tuple es | List es => forallb single_for es
  | Dict ks vs => forallb single_for ks && forallb single_for vs
  | Subscript v s => single_for v && single_for s
  | ListComp x gs | GenExp x gs =>
      single_for x &&
      match gs with
      | [CompFor t i ifs _] => single_for t && single_for i && forallb single_for ifs
      | _ => false
      end
  | CompFor _ _ _ _ => false
  | Other _ _ cs => forallb single_for cs
  end.

(* no comprehension node of any kind, at any depth *)
Fixpoint no_comp (e : expr) : bool :=
  match e with
  | Name _ | Const _ | Raw _ => true
  | Attr v _ => no_comp v
  | Call g args _ kwv => no_comp g && forallb no_comp args && forallb no_comp kwv
  | Lambda _ b => no_comp b
  | UnaryOp _ x => no_comp x
  | BinOp _ l r => no_comp l && no_comp r
  | BoolOp _ es => forallb no_comp es
  | Compare l _ rs => no_comp l && forallb no_comp rs
  | IfExp c t x => no_comp c && no_comp t && no_comp x
  | Tuple es | List es => forallb no_comp es
  | Dict ks vs => forallb no_comp ks && forallb no_comp vs
  | Subscript v s => no_comp v && no_comp s
  | ListComp _ _ | GenExp _ _ | CompFor _ _ _ _ => false
  | Other _ _ cs => forallb no_comp cs
  end.

Definition is_compfor (e : expr) : bool := match e with CompFor _ _ _ _ => true | _ => false end.

(* well-formedness for totality: the [generators] of every comprehension are [comprehension] nodes *)
Fixpoint gens_ok (e : expr) : bool :=
  match e with
  | Name _ | Const _ | Raw _ => true
  | Attr v _ => gens_ok v
  | Call g args _ kwv => gens_ok g && forallb gens_ok args && forallb gens_ok kwv
  | Lambda _ b => gens_ok b
  | UnaryOp _ x => gens_ok x
  | BinOp _ l r => gens_ok l && gens_ok r
  | BoolOp _ es => forallb gens_ok es
  | Compare l _ rs => gens_ok l && forallb gens_ok rs
  | IfExp c t x => gens_ok c && gens_ok t && gens_ok x
  | Tuple es | List es => forallb gens_ok es
  | Dict ks vs => forallb gens_ok ks && forallb gens_ok vs
  | Subscript v s => gens_ok v && gens_ok s
  | ListComp x gs | GenExp x gs => gens_ok x && forallb is_compfor gs && forallb gens_ok gs
  | CompFor t i ifs _ => gens_ok t && gens_ok i && forallb gens_ok ifs
  | Other _ _ cs => forallb gens_ok cs
  end.

(* a [for] clause the lowering must refuse: target not a plain name, or async *)
Definition bad_clause (g : expr) : bool :=
  match g with
  | CompFor (Name _) _ _ a => a
  | CompFor _ _ _ _ => true
  | _ => false
  end.

(* some comprehension, at any depth, has such a clause *)
Fixpoint has_bad_comp (e : expr) : bool :=
  match e with
  | Name _ | Const _ | Raw _ => false
  | Attr v _ => has_bad_comp v
  | Call g args _ kwv => has_bad_comp g || existsb has_bad_comp args || existsb has_bad_comp kwv
  | Lambda _ b => has_bad_comp b
  | UnaryOp _ x => has_bad_comp x
  | BinOp _ l r => has_bad_comp l || has_bad_comp r
  | BoolOp _ es => existsb has_bad_comp es
  | Compare l _ rs => has_bad_comp l || existsb has_bad_comp rs
  | IfExp c t x => has_bad_comp c || has_bad_comp t || has_bad_comp x
  | Tuple es | List es => existsb has_bad_comp es
  | Dict ks vs => existsb has_bad_comp ks || existsb has_bad_comp vs
  | Subscript v s => has_bad_comp v || has_bad_comp s
  | ListComp x gs | GenExp x gs => has_bad_comp x || existsb bad_clause gs || existsb has_bad_comp gs
  | CompFor t i ifs _ => has_bad_comp t || has_bad_comp i || existsb has_bad_comp ifs
  | Other _ _ cs => existsb has_bad_comp cs
  end.

(* Model of the source-recovery heuristic of func_adl/util_ast.py at *token* level:
   _token_runner.find_identifier, _token_runner.tokens_till, _get_lambda_in_stream,
   _parse_source_for_lambda (backing-up loop, grouping by the calling method's NAME, caller and argument
   filters, multiplicity errors, the def branch through rewrite_func_as_lambda).

   What is CPython's and therefore an *input* of the model (tied by correspondence only):
     - the token streams: [streams] is the list of token streams `tokenize.generate_tokens` yields
       when started at source line L-1, L-2, ... (0-based; one stream per value `lambda_line` takes
       in the backing-up loop).  Token rows are absolute file rows (`lambda_line + t.start[0]`).
       A tokenizer exception is the last token of its stream, of kind [KErr] (text = class name).
     - [L] = `inspect.findsource(f)[1] + 1` (the code object's first line for every lambda);
     - `tokenize.untokenize` + `ast.parse` of an extent + `ast.walk` for the first Lambda, i.e. the
       body of _get_lambda_in_stream after the token loop: the function [P : list tok -> parse_res]
       applied to the extent's token slice (start token + yielded tokens, comments removed);
       `[a.arg for a in lda.args.args]` is [PArgs];
     - `inspect.getsource` + `ast.parse` of a one-line `def`: [dsrc] (statement kinds of the body);
     - whether the callable is a lambda (`__name__ == "<lambda>"`): [is_lam].

   This file models the algorithm *with the three repairs* (fixes/F15.diff, fixes/F15b.diff,
   fixes/F28.diff = commits 96d33e6, 9ed12ca, d451731 of the library):
   [rowfix] = only a candidate whose `lambda` token is on row L is kept; [kwfix] = a lambda is
   searched by the keyword `lambda` only, a function by `def` only; [eqfix] = find_identifier does not
   take a NAME that is immediately followed by the OP `=` (the keyword of an argument, `f=lambda ...`)
   for the name of the called method: the identifier before it is restored.  The selection of the pinned
   commit is [find_gen false false false]; it is kept so that the defects are recorded as theorems
   (Properties/C03.v: ..._refuted). *)
From Coq Require Import List String ZArith Bool Arith.
Import ListNotations.
Open Scope string_scope.

Inductive kind := KName | KOp | KNewline | KNl | KComment | KErr | KOther.

Record tok := mkTok { trow : nat; tkind : kind; ttext : string }.

Inductive parse_res :=
| PArgs (a : list string)      (* a Lambda node was found; names of its positional parameters *)
| PNoLambda                    (* parsed, but no Lambda node: `lda` is None *)
| PExc (e : string).           (* untokenize / ast.parse raised *)

Definition parse_fn := list tok -> parse_res.

(* a lambda seen by the scan: the identifier find_identifier returns with it (grouping key: the last NAME
   before it that is not the keyword of a `name=` argument), index of its `lambda` token, index of
   the token that ended its extent (or the stream length), row of the `lambda` token, parse *)
Record cand := mkCand { c_key : option string; c_start : nat; c_stop : nat; c_row : nat;
                        c_parse : parse_res }.

Inductive err := ENoSource | ENoLambda | ENoArgs | EMultiple | EDefLines | EDefNoReturn.

Inductive outcome :=
| Found (s k : nat)            (* the lambda whose `lambda` token is token k of stream s *)
| FoundDef                     (* the def, rewritten as a lambda *)
| Err (e : err)                (* ValueError *)
| Crash (c : string)           (* any other exception *)
| NeedStream (s : nat).        (* the caller of the model did not supply stream s *)

Inductive skind := SDoc | SReturn | SOther.
Inductive def_src := DSBody (b : list skind) | DSExc (e : string).

(* ---- token tests ---- *)
Definition is_kind (k : kind) (t : tok) : bool :=
  match tkind t, k with
  | KName, KName | KOp, KOp | KNewline, KNewline | KNl, KNl
  | KComment, KComment | KErr, KErr | KOther, KOther => true
  | _, _ => false
  end.

Definition is_op (s : string) (t : tok) : bool := is_kind KOp t && String.eqb (ttext t) s.
Definition is_name (s : string) (t : tok) : bool := is_kind KName t && String.eqb (ttext t) s.
Definition is_stop (t : tok) : bool := is_op "," t || is_op ")" t.
(* `t.type == tokenize.NEWLINE or t.string == "\n"` *)
Definition nl_text : string := String (Ascii.ascii_of_nat 10) EmptyString.
Definition is_nl (t : tok) : bool := is_kind KNewline t || String.eqb (ttext t) nl_text.

Definition delta (o c : string) (t : tok) : Z :=
  if is_op o t then 1%Z else if is_op c t then (-1)%Z else 0%Z.
Definition dpar := delta "(" ")".
Definition dbrk := delta "[" "]".
Definition dbrc := delta "{" "}".

Definition zero3 (p b c : Z) : bool := Z.eqb p 0 && Z.eqb b 0 && Z.eqb c 0.

(* ---- the scan of one stream ---- *)
(* find_identifier's loop state: last_identifier, previous_identifier, last_was_name *)
Inductive mode :=
| First (last prev : option string) (nm : bool)  (* find_identifier(kw), can_encounter_newline=True *)
| Seek (last prev : option string) (nm : bool)   (* find_identifier(["lambda"], can_encounter_newline=False) *)
| Ext (key : option string) (start row : nat) (p b c : Z) (saw : bool).
                                    (* tokens_till inside _get_lambda_in_stream *)

Inductive scan_res :=
| ScDone (cs : list cand)           (* candidates, in source order *)
| ScDef                             (* first identifier found is `def` *)
| ScNoName (k : nat)                (* first `lambda` has no NAME before it: back up a line *)
| ScNone                            (* no identifier: _parse_source_for_lambda returns None *)
| ScCrash (e : string).

(* the token list _get_lambda_in_stream accumulates for the lambda starting at token [a] whose
   extent was ended by token [b]: the start token and every later token before [b] that is not a
   COMMENT (tokens_till does not yield comments) *)
Definition not_comment (t : tok) : bool := negb (is_kind KComment t).
Definition extent (whole : list tok) (a b : nat) : list tok :=
  firstn 1 (skipn a whole) ++ filter not_comment (firstn (b - S a) (skipn (S a) whole)).

(* find_identifier on a token that is not a NAME:
     if last_was_name and t.type == OP and t.string == "=": last_identifier = previous_identifier *)
Definition unkw (eqfix nm : bool) (last prev : option string) (t : tok) : option string :=
  if eqfix && nm && is_op "=" t then prev else last.

Section Scan.
  Variable P : parse_fn.
  Variable kw : list string.
  Variable eqfix : bool.          (* the repair of d451731 (F28) is in force *)
  Variable whole : list tok.      (* the complete stream being scanned *)

  (* end of _get_lambda_in_stream: parse the extent, record the candidate *)
  Definition close (key : option string) (start stop row : nat) (cs : list cand)
             (k : list cand -> scan_res) : scan_res :=
    match P (extent whole start stop) with
    | PExc e => ScCrash e
    | r => k (mkCand key start stop row r :: cs)
    end.

  Fixpoint scan (m : mode) (i : nat) (ts : list tok) (cs : list cand) : scan_res :=
    match ts with
    | [] =>
        match m with
        | First _ _ _ => ScNone
        | Seek _ _ _ => ScDone (rev cs)
        | Ext key st row _ _ _ _ => close key st i row cs (fun cs' => ScDone (rev cs'))
        end
    | t :: r =>
        if is_kind KErr t then ScCrash (ttext t) else
        match m with
        | First last prev nm =>
            if is_kind KName t then
              if existsb (String.eqb (ttext t)) kw then
                if String.eqb (ttext t) "def" then ScDef
                else match last with
                     | None => ScNoName i
                     | Some _ => scan (Ext last i (trow t) 0 0 0 false) (S i) r cs
                     end
              else scan (First (Some (ttext t)) last true) (S i) r cs
            else scan (First (unkw eqfix nm last prev t) prev false) (S i) r cs
        | Seek last prev nm =>
            if is_kind KName t then
              if String.eqb (ttext t) "lambda"
              then scan (Ext last i (trow t) 0 0 0 false) (S i) r cs
              else scan (Seek (Some (ttext t)) last true) (S i) r cs
            else if is_kind KNewline t then ScDone (rev cs)
            else scan (Seek (unkw eqfix nm last prev t) prev false) (S i) r cs
        | Ext key st row p b c saw =>
            if is_stop t && zero3 p b c then
              close key st i row cs
                    (fun cs' => if saw then ScDone (rev cs') else scan (Seek None None false) (S i) r cs')
            else
              let p' := (p + dpar t)%Z in
              let b' := (b + dbrk t)%Z in
              let c' := (c + dbrc t)%Z in
              if is_kind KComment t then scan (Ext key st row p' b' c' saw) (S i) r cs
              else scan (Ext key st row p' b' c' (saw || is_nl t)) (S i) r cs
        end
    end.

End Scan.

Definition scan_stream (P : parse_fn) (kw : list string) (eqfix : bool) (ts : list tok) : scan_res :=
  scan P kw eqfix ts (First None None false) 0 ts [].

Section Backup.
  Variable P : parse_fn.
  Variable kw : list string.
  Variable eqfix : bool.

  (* the backing-up loop `lambda_line -= 1` *)
  Fixpoint backup (streams : list (list tok)) (s : nat) : nat * option scan_res :=
    match streams with
    | [] => (s, None)
    | ts :: more =>
        match scan_stream P kw eqfix ts with
        | ScNoName _ => backup more (S s)
        | r => (s, Some r)
        end
    end.
End Backup.

(* ---- choosing among the candidates ---- *)
Fixpoint strs_eqb (a b : list string) : bool :=
  match a, b with
  | [], [] => true
  | x :: a', y :: b' => String.eqb x y && strs_eqb a' b'
  | _, _ => false
  end.

Definition key_is (nm : string) (c : cand) : bool :=
  match c_key c with Some k => String.eqb k nm | None => false end.
Definition args_are (args : list string) (c : cand) : bool :=
  match c_parse c with PArgs a => strs_eqb a args | _ => false end.
Definition no_lambda (c : cand) : bool :=
  match c_parse c with PNoLambda => true | _ => false end.
Definition on_row (L : nat) (c : cand) : bool := Nat.eqb (c_row c) L.

Definition select (rowfix : bool) (L : nat) (caller : option string) (args : list string)
           (s : nat) (cs : list cand) : outcome :=
  let cs1 := if rowfix then filter (on_row L) cs else cs in
  let search := match caller with Some nm => filter (key_is nm) cs1 | None => cs1 end in
  match search with
  | [] => Err ENoLambda
  | _ =>
      if existsb no_lambda search then Crash "AttributeError"     (* lambda_arg_list(None) *)
      else match filter (args_are args) search with
           | [] => Err ENoArgs
           | [c] => Found s (c_start c)
           | _ => Err EMultiple
           end
  end.

(* rewrite_func_as_lambda on the parsed def *)
Definition not_doc (k : skind) : bool := match k with SDoc => false | _ => true end.
Definition def_outcome (d : def_src) : outcome :=
  match d with
  | DSExc e => Crash e
  | DSBody b =>
      match filter not_doc b with
      | [SReturn] => FoundDef
      | [_] => Err EDefNoReturn
      | _ => Err EDefLines
      end
  end.

Definition keywords (kwfix is_lam : bool) : list string :=
  if kwfix then (if is_lam then ["lambda"] else ["def"]) else ["def"; "lambda"].

Definition find_gen (rowfix kwfix eqfix : bool) (P : parse_fn) (streams : list (list tok)) (L : nat)
           (is_lam : bool) (dsrc : def_src) (caller : option string) (args : list string) : outcome :=
  match backup P (keywords kwfix is_lam) eqfix streams 0 with
  | (s, None) => NeedStream s
  | (s, Some ScDef) => def_outcome dsrc
  | (s, Some ScNone) => Err ENoSource
  | (s, Some (ScCrash e)) => Crash e
  | (s, Some (ScDone cs)) => select rowfix L caller args s cs
  | (s, Some (ScNoName _)) => NeedStream s      (* not produced by [backup] *)
  end.

(* the algorithm with fixes F15, F15b and F28 (the library at d451731) *)
Definition find := find_gen true true true.
(* the pinned commit *)
Definition find_pinned := find_gen false false false.
(* F15b applied, F15 not: the selection that loses the line constraint *)
Definition find_norow := find_gen false true false.
(* F15 applied, F15b not: `def` and `lambda` searched together *)
Definition find_defkw := find_gen true false false.
(* F15 and F15b applied, F28 not (the library before d451731): a lambda passed by keyword is filed
   under the keyword's name *)
Definition find_kwname := find_gen true true false.

(* Model of func_adl/ast/function_simplifier.py (simplify_chained_calls), func_adl/ast/call_stack.py
   (argument_stack) and the util_ast lambda helpers it uses.

   - [stack] is argument_stack: a list of frames, innermost first; [visit_Name] looks a name up
     from the innermost frame outwards.
   - the global [argument_var_counter] is threaded explicitly ([nat] state).
   - the Python visitor re-visits terms it has just built ([self.visit(convolute ...)],
     [self.visit(function_call("SelectMany", ...))]), so the function is not structurally
     recursive: explicit fuel, with the distinguished result [OutOfFuel] that every theorem
     excludes in its statement.  One unit of fuel per [self.visit] call.
   - every place where the Python can raise is an explicit result: [IndexErr] for the dedicated
     FuncADLIndexError, [Crash k] for everything else (AssertionError, AttributeError, TypeError,
     IndexError, KeyError ...), so "does not crash" is a statement about a value.
   - a raw Python value put in a node slot is a [Raw] node.
   - the dynamic dispatch [getattr(self, "call_" + name)] is driven by the generated table
     [simp_call_handlers] (Gen/TablesSimp.v).
   - [bound] is [self._bound]: the parameters of the enclosing lambdas that are not being called.

   This is the algorithm after the hygiene repairs (called-lambda parameters are given fresh names
   before they are bound; an un-called lambda whose parameter is in scope or mentioned by a
   pending definition is alpha-renamed; the lambda another lambda is moved into is freshened;
   Python's argument binding for called lambdas, none for starred arguments; literal projection only for constant
   selectors). *)
From FA.Base Require Import PyAst Value Traverse Names.
From FA.Gen Require Import TablesSimp.

Inductive sres (A : Type) :=
 | Ok (a : A)
 | IndexErr
 | Crash (k : string)
 | OutOfFuel.
Arguments Ok {A} a.
Arguments IndexErr {A}.
Arguments Crash {A} k.
Arguments OutOfFuel {A}.

Definition sbind {A B} (m : sres A) (f : A -> sres B) : sres B :=
  match m with
  | Ok a => f a
  | IndexErr => IndexErr
  | Crash k => Crash k
  | OutOfFuel => OutOfFuel
  end.

Notation "'let*' x ':=' m 'in' f" := (sbind m (fun x => f)) (at level 200, x pattern, m at level 100, f at level 200).

Definition frame := list (string * expr).
Definition stack := list frame.

Fixpoint frame_lookup (x : string) (fr : frame) : option expr :=
  match fr with
  | [] => None
  | (y, v) :: fr' => if String.eqb x y then Some v else frame_lookup x fr'
  end.

(* argument_stack.lookup_name: innermost frame first.  [define_name] overwrites within a frame:
   frames are built so that the most recent definition comes first. *)
Fixpoint stack_lookup (x : string) (st : stack) : option expr :=
  match st with
  | [] => None
  | fr :: st' => match frame_lookup x fr with Some v => Some v | None => stack_lookup x st' end
  end.

(* ---------- make_args_unique ---------- *)

Fixpoint ren_lookup (x : string) (m : list (string * string)) : option string :=
  match m with
  | [] => None
  | (y, z) :: m' => if String.eqb x y then Some z else ren_lookup x m'
  end.

(* replace_args: [m] is _arg_stack with the most recent entry first.  Nested lambdas push the
   identity mapping (shadowing). *)
Fixpoint rename (m : list (string * string)) (e : expr) {struct e} : expr :=
  match e with
  | Name x => match ren_lookup x m with Some y => Name y | None => Name x end
  | Lambda ps b => Lambda ps (rename (rev (map (fun p => (p, p)) ps) ++ m) b)
  | _ => map_children_t (rename m) e
  end.

(* fresh names for the parameters, drawn in order *)
Fixpoint fresh_names (n : nat) (c : nat) : list string :=
  match n with
  | 0 => []
  | S n' => arg_name c :: fresh_names n' (S c)
  end.

(* make_args_unique on a Lambda node: returns the renamed lambda and the new counter *)
Definition make_args_unique (ps : list string) (b : expr) (c : nat) : expr * nat :=
  let fs := fresh_names (length ps) c in
  (Lambda fs (rename (rev (combine ps fs)) b), c + length ps).

(* convolute(g, f) = lambda x: g'(f'(x)) *)
Definition convolute (g f : expr) (c : nat) : sres (expr * nat) :=
  match g, f with
  | Lambda gps gb, Lambda fps fb =>
      let '(lg, c1) := make_args_unique gps gb c in
      let '(lf, c2) := make_args_unique fps fb c1 in
      let x := arg_name c2 in
      Ok (Lambda [x] (Call lg [Call lf [Name x] [] []] [] []), S c2)
  | _, _ => Crash "convolute: not a lambda"
  end.

Definition lambda_is_identity (l : expr) : bool :=
  match l with
  | Lambda [p] (Name x) => String.eqb p x
  | _ => false
  end.

Definition lambda_is_true (l : expr) : bool :=
  match l with
  | Lambda _ (Const (CBool true)) => true
  | _ => false
  end.

Definition make_Select (source selection : expr) : expr :=
  if lambda_is_identity selection then source else function_call "Select" [source; selection].

Definition is_lambda (e : expr) : bool := match e with Lambda _ _ => true | _ => false end.

(* Python's == between a dictionary-literal key constant and the selector value *)
Definition key_matches (k : const) (s : const) : bool :=
  match k, s with
  | CStr a, CStr b => String.eqb a b
  | CInt a, CInt b => Z.eqb a b
  | CInt a, CBool b => Z.eqb a (if b then 1 else 0)
  | CBool a, CInt b => Z.eqb (if a then 1 else 0) b
  | CBool a, CBool b => Bool.eqb a b
  | _, _ => false
  end.

(* visit_Subscript_Dict_with_value: scan the keys from the last to the first; a key that is not a
   Constant makes the lookup undecidable ([None]); the first match (= Python's last entry) wins *)
Fixpoint dict_scan (rks rvs : list expr) (s : const) : option expr :=
  match rks, rvs with
  | k :: rks', v :: rvs' =>
      match k with
      | Const kc => if key_matches kc s then Some v else dict_scan rks' rvs' s
      | _ => None
      end
  | _, _ => None
  end.

Definition dict_with_value (ks vs : list expr) (s : const) : sres (option expr) :=
  if Nat.eqb (length ks) (length vs) then Ok (dict_scan (rev ks) (rev vs) s)
  else Crash "dict keys/values length".      (* never produced by a parser; v.values[index] may raise *)

(* index into a tuple/list literal with a constant int *)
Definition seq_project (es : list expr) (n : Z) : sres expr :=
  if ((n >=? Z.of_nat (length es)) || (n <? - Z.of_nat (length es)))%Z then IndexErr
  else match py_index es n with Some x => Ok x | None => Crash "IndexError" end.

(* ast.walk: does a Name with this id occur anywhere in the tree (under binders too)? *)
Fixpoint occurs (x : string) (e : expr) {struct e} : bool :=
  let any := fix any (l : list expr) : bool :=
               match l with [] => false | y :: ys => occurs x y || any ys end in
  match e with
  | Name y => String.eqb x y
  | Const _ | Raw _ => false
  | Attr v _ => occurs x v
  | Call f args _ kwv => occurs x f || any args || any kwv
  | Lambda _ b => occurs x b
  | UnaryOp _ a => occurs x a
  | BinOp _ l r => occurs x l || occurs x r
  | BoolOp _ es => any es
  | Compare l _ rs => occurs x l || any rs
  | IfExp c t f => occurs x c || occurs x t || occurs x f
  | Tuple es | List es => any es
  | Dict ks vs => any ks || any vs
  | Subscript v i => occurs x v || occurs x i
  | ListComp a gs | GenExp a gs => occurs x a || any gs
  | CompFor t i ifs _ => occurs x t || occurs x i || any ifs
  | Other _ _ cs => any cs
  end.

(* argument_stack.mentions *)
Definition stack_mentions (st : list (list (string * expr))) (x : string) : bool :=
  existsb (fun fr => existsb (fun kv => occurs x (snd kv)) fr) st.

(* _bind_lambda_call: positional then keyword binding, every parameter exactly once *)
Fixpoint has_dup (l : list string) : bool :=
  match l with
  | [] => false
  | x :: xs => existsb (String.eqb x) xs || has_dup xs
  end.

Fixpoint bind_keywords (ps : list string) (given : list (string * expr))
         (kwn : list (option string)) (kwv : list expr) : option (list (string * expr)) :=
  match kwn, kwv with
  | [], _ => Some given
  | Some k :: kwn', v :: kwv' =>
      if negb (existsb (String.eqb k) ps) then None
      else if existsb (fun kv => String.eqb k (fst kv)) given then None
      else bind_keywords ps (given ++ [(k, v)]) kwn' kwv'
  | _, _ => None
  end.

Fixpoint assoc_expr (x : string) (l : list (string * expr)) : option expr :=
  match l with
  | [] => None
  | (y, v) :: l' => if String.eqb x y then Some v else assoc_expr x l'
  end.

Definition bind_lambda_call (ps : list string) (args : list expr)
           (kwn : list (option string)) (kwv : list expr) : option (list expr) :=
  if has_dup ps then None
  else if Nat.ltb (length ps) (length args) then None
  else match bind_keywords ps (combine ps args) kwn kwv with
       | None => None
       | Some given =>
           if negb (Nat.eqb (length given) (length ps)) then None
           else sequence (map (fun p => assoc_expr p given) ps)
       end.

(* a starred call argument [*xs] (an [Other] node of class Starred): a called lambda that has one is left as a call *)
Definition is_starred (e : expr) : bool :=
  match e with Other cls _ _ => String.eqb cls "Starred;value=n" | _ => false end.

Definition is_call_handler (n : string) : bool := existsb (String.eqb n) simp_call_handlers.

(* a stateful map over a list, left to right *)
Definition mapM (f : nat -> expr -> sres (expr * nat)) : nat -> list expr -> sres (list expr * nat) :=
  fix go (c : nat) (l : list expr) : sres (list expr * nat) :=
    match l with
    | [] => Ok ([], c)
    | x :: xs =>
        let* (x', c1) := f c x in
        let* (xs', c2) := go c1 xs in
        Ok (x' :: xs', c2)
    end.

Definition unpack2 (e : expr) : option (expr * expr) :=
  match e with
  | Call _ (a :: b :: _) _ _ => Some (a, b)
  | _ => None
  end.

Definition const_index (c : const) : option Z :=
  match c with
  | CInt n => Some n
  | CBool b => Some (if b then 1 else 0)%Z
  | _ => None
  end.

(* a negative literal index is parsed as -(n): visit_Subscript folds it into a constant *)
Definition norm_index (s : expr) : expr :=
  match s with
  | UnaryOp USub (Const (CInt n)) => Const (CInt (- n))
  | _ => s
  end.

Definition const_key (c : const) : bool :=
  match c with CInt _ | CBool _ | CStr _ => true | _ => false end.

Fixpoint simp (fuel : nat) (st : stack) (bound : list string) (c : nat) (e : expr) {struct fuel}
  : sres (expr * nat) :=
  match fuel with
  | 0 => OutOfFuel
  | S f =>
    let visit := simp f st bound in
    let generic (c : nat) (e : expr) : sres (expr * nat) :=
      let* (cs, c1) := mapM visit c (children e) in
      Ok (rebuild e cs, c1) in
    (* First(Select(seq, lambda a: body)) re-visited *)
    let first_of (seq : expr) (a : string) (body : expr) (c : nat) :=
      visit c (function_call "First" [make_Select seq (Lambda [a] body)]) in
    match e with
    | Name x => match stack_lookup x st with Some v => Ok (v, c) | None => Ok (e, c) end

    | Lambda ps b =>
        (* visit_Lambda: a lambda that is not being called *)
        let '(ps', b', c0) :=
          if existsb (fun n => existsb (String.eqb n) bound || stack_mentions st n) ps then
            match make_args_unique ps b c with
            | (Lambda qs b2, c') => (qs, b2, c')
            | (_, c') => (ps, b, c')       (* unreachable: make_args_unique returns a Lambda *)
            end
          else (ps, b, c) in
        let* (b'', c1) := simp f st (bound ++ ps') c0 b' in
        Ok (Lambda ps' b'', c1)

    | Attr v a =>
        if is_call_of v "First" then
          match v with
          | Call _ (first :: _) _ _ =>
              let an := arg_name c in
              first_of first an (Attr (Name an) a) (S c)
          | _ => Crash "First() without arguments"
          end
        else
          let* (v', c1) := visit c v in
          match v' with
          | Dict ks vs =>
              let* r := dict_with_value ks vs (CStr a) in
              match r with Some x => Ok (x, c1) | None => Ok (Attr v' a, c1) end
          | _ => Ok (Attr v' a, c1)
          end

    | Subscript v s =>
        let* (v', c1) := visit c v in
        let* (s0, c2) := visit c1 s in
        let s' := norm_index s0 in
        let default :=
          if is_call_of v' "First" then
            match v' with
            | Call _ (first :: _) _ _ =>
                let an := arg_name c2 in
                first_of first an (Subscript (Name an) s') (S c2)
            | _ => Crash "First() without arguments"
            end
          else Ok (Subscript v' s', c2) in
        match s' with
        | Const k =>
            match v' with
            | Tuple es | List es =>
                match const_index k with
                | Some n => if existsb is_starred es then default     (* no fixed positions: left alone *)
                            else let* r := seq_project es n in Ok (r, c2)
                | None => default
                end
            | Dict ks vs =>
                if const_key k then
                  let* r := dict_with_value ks vs k in
                  match r with Some x => Ok (x, c2) | None => Ok (Subscript v' s', c2) end
                else default
            | _ => default
            end
        | _ => default
        end

    | Call (Lambda ps body) args kwn kwv =>
        match (if existsb is_starred args then None else bind_lambda_call ps args kwn kwv) with
        | None => generic c e
        | Some given =>
            (* beta-reduction: arguments visited in parameter order, then fresh parameter names *)
            let* (args', c1) := mapM visit c given in
            match make_args_unique ps body c1 with
            | (Lambda fs body', c2) => simp f (rev (combine fs args') :: st) bound c2 body'
            | _ => Crash "make_args_unique"
            end
        end

    | Call (Attr (Call (Name fn) fargs _ _) m) margs kwn kwv =>
        if String.eqb fn "First" then
          (* select_method_call_on_first *)
          match fargs with
          | seq :: _ =>
              let an := arg_name c in
              first_of seq an (Call (Attr (Name an) m) margs kwn kwv) (S c)
          | [] => Crash "First() without arguments"
          end
        else generic c e

    | Call (Name fn) args _ _ =>
        if is_call_handler fn then
          if String.eqb fn "Select" then
            match args with
            | source :: transform :: _ =>
                if negb (is_lambda transform) then Crash "Select: not a lambda" else
                let* (parent, c1) := visit c source in
                if is_call_of parent "Select" then
                  match unpack2 parent with
                  | Some (src, ff) =>
                      if negb (is_lambda ff) then Crash "Select_of_Select: not a lambda" else
                      let* (cv, c2) := convolute transform ff c1 in
                      let* (sel, c3) := visit c2 cv in
                      Ok (make_Select src sel, c3)
                  | None => Crash "Select_of_Select: parent args"
                  end
                else if is_call_of parent "SelectMany" then
                  match unpack2 parent with
                  | Some (src, Lambda fps fb) =>
                      match make_args_unique fps fb c1 with
                      | (Lambda fps' fb', c2) =>
                          visit c2 (function_call "SelectMany" [src; Lambda fps' (make_Select fb' transform)])
                      | _ => Crash "make_args_unique"
                      end
                  | Some _ => Crash "Select_of_SelectMany: not a lambda"
                  | None => Crash "Select_of_SelectMany: parent args"
                  end
                else
                  let* (sel, c2) := visit c1 transform in
                  Ok (make_Select parent sel, c2)
            | _ => Crash "Select: args"
            end
          else if String.eqb fn "SelectMany" then
            match args with
            | source :: selection :: _ =>
                if negb (is_lambda selection) then Crash "SelectMany: not a lambda" else
                let* (parent, c1) := visit c source in
                if is_call_of parent "SelectMany" then
                  match parent with
                  | Call _ [seq; Lambda fps fb] _ _ =>
                      match make_args_unique fps fb c1 with
                      | (Lambda (fp :: _) fb', c2) =>
                          visit c2 (function_call "SelectMany"
                                      [seq; Lambda [fp] (function_call "SelectMany" [fb'; selection])])
                      | _ => Crash "SelectMany_of_SelectMany: lambda without parameters"
                      end
                  | _ => Crash "SelectMany_of_SelectMany: parent shape"
                  end
                else if is_call_of parent "Select" then
                  match parent with
                  | Call _ [seq; ff] _ _ =>
                      if negb (is_lambda ff) then Crash "SelectMany_of_Select: not a lambda" else
                      let* (cv, c2) := convolute selection ff c1 in
                      let* (sel, c3) := visit c2 cv in
                      Ok (function_call "SelectMany" [seq; sel], c3)
                  | _ => Crash "SelectMany_of_Select: parent shape"
                  end
                else
                  let* (sel, c2) := visit c1 selection in
                  Ok (function_call "SelectMany" [parent; sel], c2)
            | _ => Crash "SelectMany: args"
            end
          else if String.eqb fn "Where" then
            match args with
            | source :: filt :: _ =>
                if negb (is_lambda filt) then Crash "Where: not a lambda" else
                let* (parent, c1) := visit c source in
                if is_call_of parent "Where" then
                  match unpack2 parent with
                  | Some (src, ff) =>
                      if negb (is_lambda ff) then Crash "Where_of_Where: not a lambda" else
                      let a := arg_name c1 in
                      let conv := Lambda [a] (BoolOp And [Call ff [Name a] [] []; Call filt [Name a] [] []]) in
                      visit (S c1) (function_call "Where" [src; conv])
                  | None => Crash "Where_of_Where: parent args"
                  end
                else if is_call_of parent "Select" then
                  match unpack2 parent with
                  | Some (src, ff) =>
                      if negb (is_lambda ff) then Crash "Where_of_Select: not a lambda" else
                      let* (cv, c2) := convolute filt ff c1 in
                      let* (w, c3) := visit c2 cv in
                      visit c3 (make_Select (function_call "Where" [src; w]) ff)
                  | None => Crash "Where_of_Select: parent args"
                  end
                else if is_call_of parent "SelectMany" then
                  match unpack2 parent with
                  | Some (seq, Lambda fps fb) =>
                      match make_args_unique fps fb c1 with
                      | (Lambda fps' fb', c2) =>
                          visit c2 (function_call "SelectMany" [seq; Lambda fps' (function_call "Where" [fb'; filt])])
                      | _ => Crash "make_args_unique"
                      end
                  | Some _ => Crash "Where_of_SelectMany: not a lambda"
                  | None => Crash "Where_of_SelectMany: parent args"
                  end
                else
                  let* (f', c2) := visit c1 filt in
                  if lambda_is_true f' then Ok (parent, c2)
                  else Ok (function_call "Where" [parent; f'], c2)
            | _ => Crash "Where: args"
            end
          else Crash "call handler not modelled"
        else generic c e

    | _ => generic c e
    end
  end.

(* the public entry point: simplify_chained_calls().visit(a) with an empty stack ([{}]) *)
Definition simplify (fuel : nat) (c : nat) (e : expr) : sres (expr * nat) := simp fuel [[]] [] c e.

(* Types, class tables and the model of func_adl/util_types.py (as fixed by fixes/F16.diff).

   What is NOT modelled: Python's [typing], [inspect.signature], [get_type_hints], the MRO and generic
   aliases.  A [classtab] is the declarative content of what they return for a set of Python classes:
   the harness builds the Python classes and reads the table back from the live class objects
   (harness/props/types_common.py: [table_of_classes]).  No proofs in this file. *)
From FA.Base Require Import PyAst Value.

(* ---------- types as the follower sees them ---------- *)

Inductive ty :=
 | TAny                                   (* typing.Any, also "no type recorded for this node" *)
 | TInt | TFloat | TBool | TStr | TNone | TBytes | TComplex | TEllipsis
 | TOpaque (k : string)                   (* type(value) of any other constant object *)
 | TCallable                              (* typing.Callable *)
 | TVar (s : string)                      (* a TypeVar, by name (the code keys its substitutions by name) *)
 | TCls (c : string) (args : list ty)     (* a class [args = []] or a generic alias C[args] *)
 | TIter (a : ty)                         (* typing.Iterable[a] *)
 | TRecord (names : list string) (tys : list ty).   (* the class make_dataclass builds for a dict literal *)

(* Python's == between type objects.  Every dict literal gets a class of its own, so two record types are
   never equal (the one exception, the very same class object reached twice through a variable, is
   outside the model and named in the property files). *)
Fixpoint ty_eqb (a b : ty) {struct a} : bool :=
  let eqs := fix eqs (l1 l2 : list ty) : bool :=
               match l1, l2 with
               | [], [] => true
               | x :: xs, y :: ys => ty_eqb x y && eqs xs ys
               | _, _ => false
               end in
  match a, b with
  | TAny, TAny | TInt, TInt | TFloat, TFloat | TBool, TBool | TStr, TStr | TNone, TNone
  | TBytes, TBytes | TComplex, TComplex | TEllipsis, TEllipsis | TCallable, TCallable => true
  | TOpaque x, TOpaque y => String.eqb x y
  | TVar x, TVar y => String.eqb x y
  | TCls c xs, TCls d ys => String.eqb c d && eqs xs ys
  | TIter x, TIter y => ty_eqb x y
  | _, _ => false
  end.

Definition is_any (t : ty) : bool := match t with TAny => true | _ => false end.

(* type(node.value) for a Constant *)
Definition const_type (c : const) : ty :=
  match c with
  | CInt _ => TInt | CBool _ => TBool | CStr _ => TStr | CBytes _ => TBytes | CNone => TNone
  | CEllipsis => TEllipsis | CFloat _ => TFloat | CComplex _ => TComplex | CObj k _ => TOpaque k
  end.

(* ---------- class tables ---------- *)

Record param := { p_name : string; p_default : option const }.

(* what happens when the follower really calls the method of a collection object
   (process_method_call_on_stream_obj) *)
Inductive opkind := OpSelect | OpSelectMany | OpWhere | OpFirst | OpStub.

Record method := {
  m_name : string;
  m_params : list param;            (* inspect.signature, in order, including "self" *)
  m_ret : option ty;                (* get_type_hints(...)["return"], None when not annotated *)
  m_cb : option string;             (* id of the callback func_adl_callback attached to the method *)
  m_op : opkind                     (* which ObjectStream operator this function object is; OpStub otherwise *)
}.

Record cls := {
  c_name : string;
  c_params : list string;           (* names of cls.__parameters__ *)
  c_base : option ty;               (* __orig_bases__[0] (found through getattr), None if absent or Generic[...] *)
  c_parent : option string;         (* next modelled class in the MRO *)
  c_methods : list method;          (* functions in the class body *)
  c_props : list (string * option string);   (* properties in the class body; Some id = registered parameterized callback *)
  c_cb : option string;             (* getattr(cls, "_func_adl_type_info", None): inherited class callbacks included *)
  c_fields : option (list string * list ty);   (* get_type_hints(cls) when is_dataclass(cls) *)
  c_collection : bool               (* member of _g_collection_classes (table order = registration order) *)
}.

Definition classtab := list cls.

Record func := {
  f_name : string;
  f_params : list param;
  f_ret : option ty;
  f_proc : option string            (* processor callback id *)
}.
Definition functab := list func.

(* call-site rewrites a callback can return: a fixed menu *)
Inductive rewrite := RwId | RwRename (n : string) | RwWrap (f : string).
Record cbspec := {
  cb_md : option expr;              (* the dictionary it attaches with stream.MetaData, if any *)
  cb_rw : rewrite;
  cb_ty : ty                        (* the type a parameterized-property callback returns *)
}.
Definition cbtab := list (string * cbspec).

Record world := { w_ct : classtab; w_ft : functab; w_cb : cbtab }.

Definition tenv := list (string * ty).

Fixpoint assoc {A} (x : string) (l : list (string * A)) : option A :=
  match l with
  | [] => None
  | (k, v) :: r => if String.eqb k x then Some v else assoc x r
  end.

Fixpoint assoc2 {A} (x : string) (ks : list string) (vs : list A) : option A :=
  match ks, vs with
  | k :: ks', v :: vs' => if String.eqb k x then Some v else assoc2 x ks' vs'
  | _, _ => None
  end.

Fixpoint find_cls (ct : classtab) (c : string) : option cls :=
  match ct with
  | [] => None
  | k :: r => if String.eqb (c_name k) c then Some k else find_cls r c
  end.

Fixpoint find_func (ft : functab) (n : string) : option func :=
  match ft with
  | [] => None
  | f :: r => if String.eqb (f_name f) n then Some f else find_func r n
  end.

Definition default_cb : cbspec := {| cb_md := None; cb_rw := RwId; cb_ty := TAny |}.
Definition cb_spec (cbs : cbtab) (id : string) : cbspec :=
  match assoc id cbs with Some s => s | None => default_cb end.

Fixpoint zip_ty (ks : list string) (vs : list ty) : list (string * ty) :=
  match ks, vs with
  | k :: ks', v :: vs' => (k, v) :: zip_ty ks' vs'
  | _, _ => []
  end.

(* ---------- util_types.py ---------- *)

Section Util.
  Variable ct : classtab.

  (* _resolve_type: None when a TypeVar is not bound.  A bare generic class [C] has __parameters__, so it
     is parameterised on the way ([C] -> [C[...]]). *)
  Fixpoint resolve (s : list (string * ty)) (t : ty) {struct t} : option ty :=
    let all := fix all (l : list ty) : option (list ty) :=
                 match l with
                 | [] => Some []
                 | x :: xs => obind (resolve s x) (fun x' => obind (all xs) (fun xs' => Some (x' :: xs')))
                 end in
    match t with
    | TVar x => assoc x s
    | TCls c [] =>
        match find_cls ct c with
        | Some k =>
            match c_params k with
            | [] => Some t
            | ps => obind (omap (fun p => assoc p s) ps) (fun l => Some (TCls c l))
            end
        | None => Some t
        end
    | TCls c args => obind (all args) (fun l => Some (TCls c l))
    | TIter a => obind (resolve s a) (fun a' => Some (TIter a'))
    | _ => Some t
    end.

  Definition resolve_arg (s : list (string * ty)) (t : ty) : ty :=
    match resolve s t with Some r => r | None => TNone end.     (* C[None] is C[NoneType] *)

  (* get_inherited: the first base, re-parameterised with the arguments of [t] bound to the parameters of
     [t]'s own class (F16); Any when there is none *)
  Definition get_inherited (t : ty) : ty :=
    match t with
    | TCls c args =>
        match find_cls ct c with
        | Some k =>
            match c_base k with
            | None => TAny
            | Some r =>
                match args with
                | [] => r
                | _ =>
                    let s := zip_ty (c_params k) args in
                    match r with
                    | TCls b bargs => TCls b (map (resolve_arg s) bargs)
                    | TIter x => TIter (resolve_arg s x)
                    | _ => r
                    end
                end
            end
        | None => TAny
        end
    | _ => TAny
    end.

  Definition is_iterable_direct (t : ty) : bool := match t with TIter _ => true | _ => false end.

  (* the while loops of is_iterable / unwrap_iterable; the base chain of Python classes is finite and
     acyclic, [fuel] = number of classes + 1 is never exhausted on a table read from real classes *)
  Fixpoint find_iterable (fuel : nat) (t : ty) : ty :=
    match fuel with
    | O => TAny
    | S n => if is_any t then TAny else if is_iterable_direct t then t else find_iterable n (get_inherited t)
    end.

  Definition chain_fuel : nat := S (length ct).

  Definition is_iterable (t : ty) : bool := negb (is_any (find_iterable chain_fuel t)).

  Definition unwrap_iterable (t : ty) : ty :=
    match find_iterable chain_fuel t with TIter a => a | _ => TAny end.

  (* build_type_dict_from_type(t, at_class): None = TypeError *)
  Fixpoint type_dict (fuel : nat) (t : ty) (at_class : string) : option (list (string * ty)) :=
    match fuel with
    | O => None
    | S n =>
        match t with
        | TCls c [] =>                               (* get_origin(t) is None *)
            match find_cls ct c with
            | Some k => match c_base k with
                        | Some _ => type_dict n (get_inherited t) at_class       (* F16: class Fixed(Base[int]) *)
                        | None => None
                        end
            | None => None
            end
        | TCls c args =>
            if String.eqb c at_class then
              match find_cls ct c with
              | Some k => Some (zip_ty (c_params k) args)
              | None => Some []
              end
            else type_dict n (get_inherited t) at_class
        | _ => None                                  (* Iterable[...] is never the class of a method; others have no origin *)
        end
    end.

  (* resolve_type_vars(parameterized_type, context_type, at_class) *)
  Definition resolve_type_vars (t : ty) (context : ty) (at_class : string) : option ty :=
    let s := match type_dict chain_fuel context at_class with Some s => s | None => [] end in
    resolve s t.

  (* get_method_and_class: the most derived definition along the MRO and the class that holds it *)
  Inductive member := MMethod (m : method) | MProp (cb : option string).

  Fixpoint find_method (ms : list method) (n : string) : option method :=
    match ms with
    | [] => None
    | m :: r => if String.eqb (m_name m) n then Some m else find_method r n
    end.

  Definition own_member (k : cls) (n : string) : option member :=
    match find_method (c_methods k) n with
    | Some m => Some (MMethod m)
    | None => match assoc n (c_props k) with Some p => Some (MProp p) | None => None end
    end.

  Fixpoint lookup_member (fuel : nat) (c : string) (n : string) : option (string * member) :=
    match fuel with
    | O => None
    | S f =>
        match find_cls ct c with
        | Some k =>
            match own_member k n with
            | Some m => Some (c, m)
            | None => match c_parent k with Some p => lookup_member f p n | None => None end
            end
        | None => None
        end
    end.

  Definition get_method_and_class (t : ty) (n : string) : option (string * member) :=
    match t with
    | TCls c _ => lookup_member chain_fuel c n
    | _ => None                 (* Any, Iterable[..], Callable, records, and the builtin classes (not in the table) *)
    end.

  (* is_dataclass(t) + get_type_hints(t) *)
  Definition record_fields (t : ty) : option (list string * list ty) :=
    match t with
    | TRecord ns ts => Some (ns, ts)
    | TCls c [] => match find_cls ct c with Some k => c_fields k | None => None end
    | _ => None
    end.

  Definition class_cb (t : ty) : option string :=
    match t with
    | TCls c _ => match find_cls ct c with Some k => c_cb k | None => None end
    | _ => None
    end.

  Definition is_collection (c : string) : bool :=
    match find_cls ct c with Some k => c_collection k | None => false end.

  Definition collection_names : list string :=
    map c_name (filter c_collection ct).
End Util.

(* Executable (boolean) statements about one token stream, used as the hypotheses of the C03
   theorems and evaluated by the harness (through the extracted driver) on every generated layout,
   so that "what the theorems assume" and "what the generator guarantees" are compared on each run.
   Definitions only; proofs are in Proofs/LambdaFinderProofs.v. *)
From Coq Require Import List String ZArith Bool Arith.
From FA.Model Require Import LambdaFinder.
Import ListNotations.
Open Scope string_scope.

(* where the argument that starts after token k ends: index of the first `,` / `)` at relative
   bracket depth (0,0,0), or the stream length *)
Fixpoint ext_from (p b c : Z) (i : nat) (ts : list tok) : nat :=
  match ts with
  | [] => i
  | t :: r =>
      if is_stop t && zero3 p b c then i
      else ext_from (p + dpar t) (b + dbrk t) (c + dbrc t) (S i) r
  end.
Definition ext_stop (toks : list tok) (k : nat) : nat := ext_from 0 0 0 (S k) (skipn (S k) toks).

(* the NAME that "calls" position k, as find_identifier tracks it: the last NAME before k - except
   that a NAME immediately followed by the OP `=` (the keyword of an argument, `f=lambda ...`) does
   not count: the NAME before it is restored - with no `,` or `)` after it (the scan restarts there) *)
Record kstate := mkK { k_last : option string; k_prev : option string; k_name : bool }.
Definition kstep (s : kstate) (t : tok) : kstate :=
  if is_kind KName t then mkK (Some (ttext t)) (k_last s) true
  else if is_stop t then mkK None None false
  else if k_name s && is_op "=" t then mkK (k_prev s) (k_prev s) false
  else mkK (k_last s) (k_prev s) false.
Definition key_state (toks : list tok) (k : nat) : kstate :=
  fold_left kstep (firstn k toks) (mkK None None false).
Definition key_before (toks : list tok) (k : nat) : option string := k_last (key_state toks k).
Definition called_byb (toks : list tok) (k : nat) (caller : string) : bool :=
  match key_before toks k with Some nm => String.eqb nm caller | None => false end.

(* tokenize's rows never decrease, and increase after a NEWLINE/NL token *)
Fixpoint rows_okb (ts : list tok) : bool :=
  match ts with
  | a :: (b :: _) as r =>
      (if is_nl a then Nat.ltb (trow a) (trow b) else Nat.leb (trow a) (trow b)) && rows_okb r
  | _ => true
  end.

Definition is_lambda_at (toks : list tok) (k : nat) : bool :=
  match nth_error toks k with Some t => is_name "lambda" t | None => false end.

(* token k0 is a `lambda` on row L, called by [caller], and CPython parses its extent to a lambda
   with the positional parameters [args] *)
Definition lambda_atb (P : parse_fn) (toks : list tok) (k0 L : nat) (caller : string)
           (args : list string) : bool :=
  match nth_error toks k0 with
  | Some t => is_name "lambda" t && Nat.eqb (trow t) L
  | None => false
  end
  && called_byb toks k0 caller
  && match P (extent toks k0 (ext_stop toks k0)) with PArgs a => strs_eqb a args | _ => false end.

(* no earlier `lambda` token's argument extent reaches k0: the lambda at k0 is not written inside
   another lambda of the scanned region *)
Definition not_nestedb (toks : list tok) (k0 : nat) : bool :=
  forallb (fun k' => if is_lambda_at toks k' then Nat.ltb (ext_stop toks k') k0 else true) (seq 0 k0).

(* ------------------------------------------------------------------------------------------
   Supported layouts: the scanned logical line is a sequence of call segments
       glue  NAME(f)  gap  `lambda` body  stop
   where glue has no `lambda`, no NEWLINE token, gap has no NEWLINE token, does not begin with the OP
   `=`, and every NAME in it is immediately followed by the OP `=` (keywords of arguments of the call:
   `f(k=lambda ...`, `f(n=1, k=lambda ...`; f stays the identifier find_identifier returns), body is
   the argument (brackets balanced relative to its start, no `,`/`)` at depth 0), stop is `,` or `)`.
   Only the last segment's body may contain a line break. *)
Record segment := mkSeg { g_glue : list tok; g_name : string; g_row : nat; g_gap : list tok;
                          g_lrow : nat; g_body : list tok; g_stop : tok }.

Definition no_err (t : tok) : bool := negb (is_kind KErr t).

(* body scanned from depth (p,b,c): never a stop at depth zero, no tokenizer error; final depths *)
Fixpoint body_ok (p b c : Z) (ts : list tok) : option (Z * Z * Z) :=
  match ts with
  | [] => Some (p, b, c)
  | t :: r =>
      if is_kind KErr t then None
      else if is_stop t && zero3 p b c then None
      else body_ok (p + dpar t) (b + dbrk t) (c + dbrc t) r
  end.
Definition body_balanced (ts : list tok) : bool :=
  match body_ok 0 0 0 ts with Some (p, b, c) => zero3 p b c | None => false end.

Definition glue_tok_ok (first : bool) (kw : list string) (t : tok) : bool :=
  no_err t
  && (if first then negb (is_kind KName t && existsb (String.eqb (ttext t)) kw)
      else negb (is_name "lambda" t) && negb (is_kind KNewline t)).
(* a NAME the scan steps over (not the keyword it looks for) *)
Definition plain_name (first : bool) (kw : list string) (s : string) : bool :=
  if first then negb (existsb (String.eqb s) kw) else negb (String.eqb s "lambda").
(* [after_name]: the token before ts is a NAME (then an OP `=` would turn that NAME into a keyword) *)
Fixpoint gap_ok (first : bool) (kw : list string) (after_name : bool) (ts : list tok) : bool :=
  match ts with
  | [] => true
  | t :: r =>
      no_err t && negb (is_kind KNewline t) &&
      (if is_kind KName t then
         plain_name first kw (ttext t) &&
         match r with
         | e :: r' => is_op "=" e && gap_ok first kw false r'
         | [] => false
         end
       else negb (after_name && is_op "=" t) && gap_ok first kw false r)
  end.

Definition seg_toks (g : segment) : list tok :=
  g_glue g ++ [mkTok (g_row g) KName (g_name g)] ++ g_gap g
         ++ [mkTok (g_lrow g) KName "lambda"] ++ g_body g ++ [g_stop g].

Definition seg_ok (first last : bool) (kw : list string) (g : segment) : bool :=
  forallb (glue_tok_ok first kw) (g_glue g)
  && (if first then negb (existsb (String.eqb (g_name g)) kw) else negb (String.eqb (g_name g) "lambda"))
  && gap_ok first kw true (g_gap g)
  && body_balanced (g_body g)
  && is_stop (g_stop g)
  && (last || negb (existsb is_nl (g_body g))).

Fixpoint segs_ok (first : bool) (kw : list string) (gs : list segment) : bool :=
  match gs with
  | [] => true
  | [g] => seg_ok first true kw g
  | g :: r => seg_ok first false kw g && segs_ok false kw r
  end.

(* what may follow the last segment: the scan must end quietly - either the last body had a line
   break, or the rest of the logical line has no further `lambda` and no tokenizer error up to its
   NEWLINE token (or the end of the stream) *)
Fixpoint tail_ok (ts : list tok) : bool :=
  match ts with
  | [] => true
  | t :: r => no_err t && (is_kind KNewline t || (negb (is_name "lambda" t) && tail_ok r))
  end.

Definition layout_toks (gs : list segment) (tail : list tok) : list tok :=
  flat_map seg_toks gs ++ tail.

(* index of the `lambda` token of segment number j *)
Fixpoint lambda_index (gs : list segment) (j : nat) : nat :=
  match gs, j with
  | [], _ => 0
  | g :: _, O => List.length (g_glue g) + 1 + List.length (g_gap g)
  | g :: r, S j' => List.length (seg_toks g) + lambda_index r j'
  end.

(* the pieces of a segment the statements speak about *)
Definition lam_tok (g : segment) : tok := mkTok (g_lrow g) KName "lambda".
(* the token list handed to CPython's parser for the segment's lambda *)
Definition ext_of (g : segment) : list tok := lam_tok g :: filter not_comment (g_body g).
(* does the argument contain a line break (then the scan stops after it) *)
Definition seg_saw (g : segment) : bool := existsb is_nl (filter not_comment (g_body g)).
(* index of the segment's `lambda` token when the segment starts at index i *)
Definition seg_start (g : segment) (i : nat) : nat := i + List.length (g_glue g) + 1 + List.length (g_gap g).

(* after the last segment: its argument had a line break, or the rest of the line is quiet *)
Fixpoint end_ok (gs : list segment) (tail : list tok) : bool :=
  match gs with
  | [] => false
  | [g] => seg_saw g || tail_ok tail
  | _ :: r => end_ok r tail
  end.

(* the segment's lambda is on row L, called by [caller], and parsed to the parameters [args] *)
Definition seg_matches (P : parse_fn) (L : nat) (caller : string) (args : list string) (g : segment) : bool :=
  Nat.eqb (g_lrow g) L && (String.eqb (g_name g) caller
  && match P (ext_of g) with PArgs a => strs_eqb a args | _ => false end).
Definition seg_parsed (P : parse_fn) (g : segment) : bool :=
  match P (ext_of g) with PArgs _ => true | _ => false end.

(* all hypotheses of the supported-layout theorem, as one boolean *)
Definition supported_layoutb (P : parse_fn) (L : nat) (caller : string) (args : list string)
           (gs1 : list segment) (g0 : segment) (gs2 : list segment) (tail : list tok) : bool :=
  segs_ok true ["lambda"] (gs1 ++ g0 :: gs2)
  && forallb (seg_parsed P) (gs1 ++ g0 :: gs2)
  && end_ok (gs1 ++ g0 :: gs2) tail
  && seg_matches P L caller args g0
  && forallb (fun g => negb (seg_matches P L caller args g)) (gs1 ++ gs2).

(* ------------------------------------------------------------------------------------------
   The def branch: a function (not a lambda) was passed.  The scan of the first stream looks for
   the first `def` NAME; the lambda machinery (candidates, P, caller, parameter names) is not used. *)
Fixpoint def_scan (ts : list tok) : scan_res :=
  match ts with
  | [] => ScNone
  | t :: r => if is_kind KErr t then ScCrash (ttext t)
              else if is_name "def" t then ScDef else def_scan r
  end.
Definition one_return (d : def_src) : bool :=
  match d with
  | DSBody b => match filter not_doc b with [SReturn] => true | _ => false end
  | DSExc _ => false
  end.
(* supported def layout: the stream read from the function's first line (its `def` line, or its first
   decorator line) reaches a `def` NAME before any tokenizer error, and the body CPython parses from
   inspect.getsource is docstring expressions plus exactly one `return` *)
Definition def_layoutb (toks : list tok) (d : def_src) : bool :=
  match def_scan toks with ScDef => one_return d | _ => false end.

(* ------------------------------------------------------------------------------------------
   A purely syntactic recogniser for argument bodies: brackets properly nested (a stack, every
   closer matches the innermost opener), no `,` outside brackets, no tokenizer error.  Proved to
   imply [body_balanced] (Proofs/LambdaFinderLayouts.v), i.e. the three independent counters of
   tokens_till see exactly what a real bracket matcher sees on well-formed source. *)
Inductive br := BPar | BBrk | BBrc.
Definition br_eqb (a b : br) : bool :=
  match a, b with BPar, BPar | BBrk, BBrk | BBrc, BBrc => true | _, _ => false end.
Definition opener (t : tok) : option br :=
  if is_op "(" t then Some BPar else if is_op "[" t then Some BBrk else if is_op "{" t then Some BBrc else None.
Definition closer (t : tok) : option br :=
  if is_op ")" t then Some BPar else if is_op "]" t then Some BBrk else if is_op "}" t then Some BBrc else None.
Fixpoint nested_ok (stack : list br) (ts : list tok) : bool :=
  match ts with
  | [] => match stack with [] => true | _ => false end
  | t :: r =>
      if is_kind KErr t then false else
      match opener t with
      | Some b => nested_ok (b :: stack) r
      | None =>
          match closer t with
          | Some b => match stack with b' :: s' => br_eqb b b' && nested_ok s' r | [] => false end
          | None => if is_op "," t then (match stack with [] => false | _ => nested_ok stack r end)
                    else nested_ok stack r
          end
      end
  end.

Definition seg_syn_ok (first last : bool) (kw : list string) (g : segment) : bool :=
  forallb (glue_tok_ok first kw) (g_glue g)
  && (if first then negb (existsb (String.eqb (g_name g)) kw) else negb (String.eqb (g_name g) "lambda"))
  && gap_ok first kw true (g_gap g)
  && nested_ok [] (g_body g)
  && is_stop (g_stop g)
  && (last || negb (existsb is_nl (g_body g))).
Fixpoint segs_syn_ok (first : bool) (kw : list string) (gs : list segment) : bool :=
  match gs with
  | [] => true
  | [g] => seg_syn_ok first true kw g
  | g :: r => seg_syn_ok first false kw g && segs_syn_ok false kw r
  end.
(* the recogniser: token classes and bracket nesting are syntactic; the parse facts (every segment's
   extent is parsed by CPython, exactly g0 has row L / caller / parameter names) are CPython's *)
Definition recognisedb (P : parse_fn) (L : nat) (caller : string) (args : list string)
           (gs1 : list segment) (g0 : segment) (gs2 : list segment) (tail : list tok) : bool :=
  segs_syn_ok true ["lambda"] (gs1 ++ g0 :: gs2)
  && forallb (seg_parsed P) (gs1 ++ g0 :: gs2)
  && end_ok (gs1 ++ g0 :: gs2) tail
  && seg_matches P L caller args g0
  && forallb (fun g => negb (seg_matches P L caller args g)) (gs1 ++ gs2).

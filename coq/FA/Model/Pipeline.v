(* C01 - the whole front end, composed exactly as ObjectStream.Select / SelectMany / Where / As* / value do
   (func_adl/object_stream.py), out of the component models:

     acquire     callable: Capture.parse_callable  (= _resolve_called_lambdas o _rewrite_captured_vars on the
                 recovered source; the source text and the closure snapshot are inputs);
                 string / ast: the lambda as it is (lambda_unwrap)
     sugar       Sugar.sugar                        (_local_simplification = resolve_syntatic_sugar)
     follow      TypeFollow.stream_op               (remap_from_lambda, check_ast, the Where gate, the new item type,
                 the MetaData / callback events)
     wrap        Op(parent', lambda) where parent' = the parent wrapped in one MetaData(...) per metadata event, in
                 order; node names and argument order are read from the generated table [operator_nodes]
     terminal    the generated table [terminals]: emitted node name, order of the as_ast(...) arguments
     value       MetaData.remove_empty              (remove_empty_metadata on the stream's AST)
     backend     ExtCalls.ext, Aggregate.agg, Simplify.simplify   (the passes func_adl.ast exports)

   A stream is a pure tree here: branching from a shared parent is the same prefix of stages used twice (what
   sharing and in-place edits could do to that is the business of C11 / C15's heap model, not of this file).

   [direct] is the meaning of a chain when Python runs it on an in-memory sequence: map / filter / concat-map, each
   lambda evaluated (Base/Eval.v) on the element under its *own* captured values.  It is written without reference
   to any of the models above.

   Where the Python raises the model returns [PFail Refused ...] (ValueError) or [PFail Crashed ...] (anything
   else), with the index of the stage and the component that refused.  No proofs in this file. *)
From FA.Base Require Import PyAst Value Eval.
From FA.Gen Require Import Tables TablesStream.
From FA.Model Require Import TypeDefs.
From FA.Model Require Capture Sugar TypeFollow MetaData ExtCalls Aggregate Simplify.

(* ---------- results ---------- *)

Inductive failure := Refused | Crashed.          (* ValueError  |  any other exception *)

Inductive pres (A : Type) :=
 | POk (a : A)
 | PFail (f : failure) (stage : nat) (component : string).
Arguments POk {A} a.
Arguments PFail {A} f stage component.

Definition pbind {A B} (x : pres A) (f : A -> pres B) : pres B :=
  match x with POk a => f a | PFail k n c => PFail k n c end.

(* ---------- a chain of operator calls ---------- *)

Inductive acquire :=
 | AcqCallable (ce : Capture.cenv)      (* a Python callable: its recovered source + the snapshot taken at the call *)
 | AcqAsIs.                             (* a source string or an ast object *)

Record stage := {
  st_op : opkind;                       (* OpSelect | OpSelectMany | OpWhere *)
  st_acq : acquire;
  st_src : expr                         (* the lambda as written *)
}.

Definition chain := list stage.

(* ---------- the generated tables of object_stream.py ---------- *)

Definition method_of_op (op : opkind) : option string :=
  match op with
  | OpSelect => Some "Select"
  | OpSelectMany => Some "SelectMany"
  | OpWhere => Some "Where"
  | _ => None
  end.

Fixpoint find_node (tbl : list (string * string * list string)) (m : string) : option (string * list string) :=
  match tbl with
  | [] => None
  | (m', node, spec) :: r => if String.eqb m m' then Some (node, spec) else find_node r m
  end.

(* the argument list of [function_call(node, [...])] as written in the source, instantiated *)
Definition inst_args (bindings : list (string * expr)) (spec : list string) : option (list expr) :=
  omap (fun a => assoc a bindings) spec.

(* function_call("Select", [n_stream.query_ast, n_ast]) *)
Definition op_node (op : opkind) (src lam : expr) : option expr :=
  obind (method_of_op op) (fun m =>
  obind (find_node operator_nodes m) (fun ns =>
  option_map (function_call (fst ns)) (inst_args [("n_stream.query_ast", src); ("n_ast", lam)] (snd ns)))).

(* ObjectStream.MetaData: function_call("MetaData", [self._q_ast, as_ast(metadata)]) *)
Definition md_node (src d : expr) : option expr :=
  obind (find_node operator_nodes "MetaData") (fun ns =>
  option_map (function_call (fst ns)) (inst_args [("self._q_ast", src); ("as_ast(metadata)", d)] (snd ns))).

(* each metadata event is one [stream = stream.MetaData(md)], in order: the first event is the innermost wrapper *)
Fixpoint wrap_events (src : expr) (evs : list TypeFollow.event) : option expr :=
  match evs with
  | [] => Some src
  | TypeFollow.EvMeta d :: r => obind (md_node src d) (fun src' => wrap_events src' r)
  | _ :: r => wrap_events src r
  end.

(* ---------- one operator call ---------- *)

(* parse_as_ast *)
Definition acquire_lambda (a : acquire) (src : expr) : Capture.sres expr :=
  match a with
  | AcqCallable ce => Capture.parse_callable ce src
  | AcqAsIs => match src with
               | Lambda _ _ => Capture.Ok src
               | _ => Capture.Err Capture.ECrash             (* lambda_unwrap: Exception *)
               end
  end.

Definition step (W : world) (k : nat) (cur : expr * ty) (s : stage) : pres (expr * ty) :=
  match acquire_lambda (st_acq s) (st_src s) with
  | Capture.Err Capture.EValueError => PFail Refused k "capture"
  | Capture.Err Capture.ECrash => PFail Crashed k "capture"
  | Capture.Ok lam0 =>
      match Sugar.sugar lam0 with
      | Sugar.Err (Sugar.ValueErr _) => PFail Refused k "sugar"
      | Sugar.Err (Sugar.Crash _) => PFail Crashed k "sugar"
      | Sugar.Ok lam1 =>
          match TypeFollow.stream_op W (st_op s) [] (snd cur) lam1 with
          | TypeFollow.Refuse _ => PFail Refused k "follow"
          | TypeFollow.Crash _ => PFail Crashed k "follow"
          | TypeFollow.Ok (lam2, item', evs) =>
              match obind (wrap_events (fst cur) evs) (fun src => op_node (st_op s) src lam2) with
              | Some q => POk (q, item')
              | None => PFail Crashed k "node"
              end
          end
      end
  end.

Fixpoint build_from (W : world) (k : nat) (cur : expr * ty) (ch : chain) : pres (expr * ty) :=
  match ch with
  | [] => POk cur
  | s :: r => pbind (step W k cur s) (fun cur' => build_from W (S k) cur' r)
  end.

(* EventDataset.__init__: function_call("EventDataset", []) *)
Definition root : expr := function_call "EventDataset" [].

Definition build (W : world) (item : ty) (ch : chain) : pres (expr * ty) := build_from W 0 (root, item) ch.

(* ---------- result-format terminals ---------- *)

Inductive tval := TVStr (s : string) | TVStrs (l : list string).

(* as_ast of a string / a list of strings *)
Definition as_ast_tval (v : tval) : expr :=
  match v with
  | TVStr s => Const (CStr s)
  | TVStrs l => List (map (fun s => Const (CStr s)) l)
  end.

(* if isinstance(columns, str): columns = [columns] *)
Definition norm_columns (v : tval) : tval := match v with TVStr s => TVStrs [s] | _ => v end.

Record terminal := {
  t_method : string;                     (* AsPandasDF | AsROOTTTree | AsParquetFiles | AsAwkwardArray *)
  t_args : list (string * tval)          (* the arguments by parameter name, as Python bound them (defaults applied) *)
}.

Definition terminal_node (t : terminal) (src : expr) : option expr :=
  obind (find_node terminals (t_method t)) (fun ns =>
  option_map (fun args => function_call (fst ns) (src :: args))
    (omap (fun n => option_map (fun v => as_ast_tval (if String.eqb n "columns" then norm_columns v else v))
                               (assoc n (t_args t))) (snd ns))).

(* ---------- what value() hands to the executor ---------- *)

Definition query (W : world) (item : ty) (ch : chain) (term : option terminal) : pres expr :=
  pbind (build W item ch) (fun cur =>
    let n := length ch in
    match (match term with None => Some (fst cur) | Some t => terminal_node t (fst cur) end) with
    | None => PFail Crashed n "terminal"
    | Some q =>
        match MetaData.remove_empty q with
        | Some q' => POk q'
        | None => PFail Crashed n "value"
        end
    end).

(* ---------- the backend passes, in the order the backends apply them ---------- *)

Definition simplify_query (fuel : nat) (q : expr) : option expr :=
  match Simplify.simplify fuel 0 q with
  | Simplify.Ok (e, _) => Some e
  | _ => None
  end.

Definition backend_passes (fuel : nat) (q : expr) : option expr :=
  obind (Aggregate.agg (ExtCalls.ext q)) (simplify_query fuel).

(* ---------- the direct meaning of a chain ---------- *)

(* the values a callable sees through its closure and its module globals (closure first, as Python looks them up);
   functions are not first-order values: a helper is meant by its call semantics, see Properties/C01.v *)
Fixpoint snapshot_env (l : list (string * Capture.capval)) : env :=
  match l with
  | [] => []
  | (x, Capture.CVal c) :: r =>
      match const_value c with
      | Some v => (x, v) :: snapshot_env r
      | None => snapshot_env r
      end
  | (_, Capture.CFun _) :: r => snapshot_env r
  end.

Definition captured (a : acquire) : env :=
  match a with
  | AcqCallable ce => snapshot_env (Capture.ce_nonlocals ce ++ Capture.ce_globals ce)
  | AcqAsIs => []
  end.

Fixpoint map_opt {A C} (f : A -> option C) (l : list A) : option (list C) :=
  match l with
  | [] => Some []
  | x :: r => match f x with
              | None => None
              | Some y => match map_opt f r with None => None | Some ys => Some (y :: ys) end
              end
  end.

Fixpoint filter_opt {A} (p : A -> option bool) (l : list A) : option (list A) :=
  match l with
  | [] => Some []
  | x :: r => match p x with
              | None => None
              | Some b => match filter_opt p r with
                          | None => None
                          | Some ys => Some (if b then x :: ys else ys)
                          end
              end
  end.

Definition seq_items (v : value) : option (list value) := match v with VList l => Some l | _ => None end.

Section Direct.
  Variable B : backend.
  Variable ops : list string.

  (* the Python function a stage's lambda denotes *)
  Definition stage_fun (s : stage) : option (value -> option value) :=
    match st_src s with
    | Lambda [x] b => Some (fun v => eval B ops ((x, v) :: captured (st_acq s)) b)
    | _ => None
    end.

  (* Select = map, Where = filter by truthiness, SelectMany = concat-map *)
  Definition run_op (op : opkind) (f : value -> option value) (l : list value) : option (list value) :=
    match op with
    | OpSelect => map_opt f l
    | OpWhere => filter_opt (fun v => match f v with Some r => Some (truthy r) | None => None end) l
    | OpSelectMany =>
        match map_opt (fun v => match f v with Some r => seq_items r | None => None end) l with
        | Some ls => Some (concat ls)
        | None => None
        end
    | _ => None
    end.

  Definition run_stage (s : stage) (l : list value) : option (list value) :=
    match stage_fun s with
    | None => None
    | Some f => run_op (st_op s) f l
    end.

  Fixpoint direct (ch : chain) (l : list value) : option (list value) :=
    match ch with
    | [] => Some l
    | s :: r => match run_stage s l with Some l' => direct r l' | None => None end
    end.
End Direct.

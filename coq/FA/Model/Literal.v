(* C13 - Python values embedded in a query keep their exact value.

   Executable model of  util_ast.as_ast  ( value -> source text -> ast.parse ),  util_ast.as_literal,
   util_ast.check_ast  and the entry points of object_stream.py that embed a Python value.

   - [pyval]      the Python values the property talks about.  [str] / [bytes] payloads are byte
                  strings (a [str] is its UTF-8 encoding, exactly as [CStr] in Base/PyAst.v).
   - [repr_t]     CPython's [repr] (= [str] for every non-str value): quote selection, the escapes
                  \\ \' \` \n \r \t \xNN, container formatting, 1-tuple comma, minus sign.
                  ASSUMPTION (stated, tested, not proved): bytes >= 128 of a [str] are copied to the
                  source text unchanged.  CPython does this for printable non-ASCII code points; for
                  non-printable ones it emits \xNN / \uNNNN / \UNNNNNNNN, which [ast.parse] decodes to
                  the same code point, so the composite [as_ast] is the same although the text differs.
   - [pval]       lexer + recursive-descent parser for the literal sub-grammar of Python expressions
                  (what [ast.parse] does on such a text).  [None] = SyntaxError *or* text outside the
                  modelled sub-grammar.
   - [literal_eval]  ast.literal_eval on the [pyval] fragment.
   - [as_ast]     the *fixed* code (F01): [repr] for a top-level str.  [as_ast_unfixed] is the code of
                  the pinned commit ( f`'{p_var}'` ).
   No proofs in this file. *)
From Coq Require Import Ascii String List ZArith Bool Decimal.
From FA.Base Require Import PyAst Value.
From FA.Gen Require Import TablesUtil TablesStream.
Import ListNotations.

Definition text := list ascii.

Inductive pyval :=
 | PStr (s : string)
 | PInt (z : Z)
 | PBool (b : bool)
 | PNone
 | PBytes (s : string)
 | PFloat (tok : string)                 (* CPython's repr token of the float; opaque *)
 | PList (l : list pyval)
 | PTuple (l : list pyval)
 | PDict (kvs : list (pyval * pyval)).

(* ------------------------------------------------------------------ characters *)

Definition code (c : ascii) : N := N_of_ascii c.
Definition chr (n : N) : ascii := ascii_of_N n.
Definition ceq (a b : ascii) : bool := Ascii.eqb a b.

Definition c_bs : ascii := "\"%char.
Definition c_sq : ascii := "'"%char.
Definition c_dq : ascii := """"%char.
Definition c_lf : ascii := "010"%char.
Definition c_cr : ascii := "013"%char.
Definition c_tab : ascii := "009"%char.
Definition c_nul : ascii := "000"%char.
Definition c_sp : ascii := " "%char.

Definition is_quote (c : ascii) : bool := ceq c c_sq || ceq c c_dq.
Definition is_digit (c : ascii) : bool := (48 <=? code c)%N && (code c <=? 57)%N.
Definition is_alpha (c : ascii) : bool :=
  ((97 <=? code c)%N && (code c <=? 122)%N) || ((65 <=? code c)%N && (code c <=? 90)%N)
  || ceq c "_"%char || (128 <=? code c)%N.
Definition is_ident (c : ascii) : bool := is_alpha c || is_digit c.
Definition is_ws (c : ascii) : bool := ceq c c_sp || ceq c c_tab.

Definition hexdigit (n : N) : ascii := if (n <? 10)%N then chr (48 + n) else chr (87 + n).
Definition hexval (c : ascii) : option N :=
  let n := code c in
  if (48 <=? n)%N && (n <=? 57)%N then Some (n - 48)%N
  else if (97 <=? n)%N && (n <=? 102)%N then Some (n - 87)%N
  else if (65 <=? n)%N && (n <=? 70)%N then Some (n - 55)%N
  else None.

(* ------------------------------------------------------------------ repr of str / bytes *)

Inductive smode := MStr | MBytes.

Definition hex_escape (c : ascii) : text :=
  [c_bs; "x"%char; hexdigit (code c / 16); hexdigit (code c mod 16)].

(* Objects/unicodeobject.c unicode_repr, Objects/bytesobject.c PyBytes_Repr *)
Definition repr_char (m : smode) (q c : ascii) : text :=
  if ceq c c_bs then [c_bs; c_bs]
  else if ceq c q then [c_bs; q]
  else if ceq c c_lf then [c_bs; "n"%char]
  else if ceq c c_cr then [c_bs; "r"%char]
  else if ceq c c_tab then [c_bs; "t"%char]
  else if (code c <? 32)%N || (code c =? 127)%N then hex_escape c
  else if (128 <=? code c)%N then match m with MStr => [c] | MBytes => hex_escape c end
  else [c].

Definition choose_quote (s : text) : ascii :=
  if existsb (ceq c_sq) s && negb (existsb (ceq c_dq) s) then c_dq else c_sq.

Fixpoint repr_body (m : smode) (q : ascii) (s : text) : text :=
  match s with
  | [] => []
  | c :: s' => repr_char m q c ++ repr_body m q s'
  end.

Definition repr_strlit (m : smode) (s : text) : text :=
  let q := choose_quote s in q :: repr_body m q s ++ [q].

(* ------------------------------------------------------------------ repr of numbers *)

Fixpoint uint_text (d : uint) : text :=
  match d with
  | Nil => []
  | D0 d => "0"%char :: uint_text d | D1 d => "1"%char :: uint_text d
  | D2 d => "2"%char :: uint_text d | D3 d => "3"%char :: uint_text d
  | D4 d => "4"%char :: uint_text d | D5 d => "5"%char :: uint_text d
  | D6 d => "6"%char :: uint_text d | D7 d => "7"%char :: uint_text d
  | D8 d => "8"%char :: uint_text d | D9 d => "9"%char :: uint_text d
  end.

Definition repr_nat (n : N) : text := uint_text (N.to_uint n).

Definition repr_int (z : Z) : text :=
  match z with
  | Zneg p => "-"%char :: repr_nat (Npos p)
  | _ => repr_nat (Z.to_N z)
  end.

(* ------------------------------------------------------------------ repr of values *)

Fixpoint join (rs : list text) : text :=
  match rs with
  | [] => []
  | r :: rs' => match rs' with [] => r | _ :: _ => r ++ ","%char :: c_sp :: join rs' end
  end.

Definition t_true : text := list_ascii_of_string "True".
Definition t_false : text := list_ascii_of_string "False".
Definition t_none : text := list_ascii_of_string "None".

Fixpoint repr_t (v : pyval) : text :=
  match v with
  | PStr s => repr_strlit MStr (list_ascii_of_string s)
  | PBytes s => "b"%char :: repr_strlit MBytes (list_ascii_of_string s)
  | PInt z => repr_int z
  | PBool b => if b then t_true else t_false
  | PNone => t_none
  | PFloat tok => list_ascii_of_string tok
  | PList l => "["%char :: join (map repr_t l) ++ ["]"%char]
  | PTuple l =>
      match l with
      | [x] => "("%char :: repr_t x ++ [","%char; ")"%char]
      | _ => "("%char :: join (map repr_t l) ++ [")"%char]
      end
  | PDict kvs =>
      "{"%char :: join (map (fun kv => match kv with (k, x) => repr_t k ++ ":"%char :: c_sp :: repr_t x end) kvs)
        ++ ["}"%char]
  end.

Definition py_repr (v : pyval) : string := string_of_list_ascii (repr_t v).

(* ------------------------------------------------------------------ lexer: string literals *)

Definition push (l : text) (o : option (text * text)) : option (text * text) :=
  match o with Some (s, r) => Some (l ++ s, r) | None => None end.

Definition utf8_2 (n : N) : text := [chr (192 + n / 64); chr (128 + n mod 64)].
Definition decode_x (m : smode) (n : N) : text :=
  match m with
  | MBytes => [chr n]
  | MStr => if (n <? 128)%N then [chr n] else utf8_2 n
  end.

(* the text after the opening quote [q]  ->  (payload, text after the closing quote) *)
Fixpoint lex_str (m : smode) (q : ascii) (t : text) : option (text * text) :=
  match t with
  | [] => None                                             (* unterminated *)
  | c :: t1 =>
    if ceq c q then Some ([], t1)
    else if ceq c c_lf || ceq c c_cr || ceq c c_nul then None   (* raw newline / NUL in a literal *)
    else if ceq c c_bs then
      match t1 with
      | [] => None
      | e :: t2 =>
        if ceq e c_bs || ceq e c_sq || ceq e c_dq then push [e] (lex_str m q t2)
        else if ceq e "n"%char then push [c_lf] (lex_str m q t2)
        else if ceq e "r"%char then push [c_cr] (lex_str m q t2)
        else if ceq e "t"%char then push [c_tab] (lex_str m q t2)
        else if ceq e "x"%char then
          match t2 with
          | h1 :: h2 :: t4 =>
            match hexval h1, hexval h2 with
            | Some a, Some b => push (decode_x m (16 * a + b)) (lex_str m q t4)
            | _, _ => None
            end
          | _ => None
          end
        else None                                          (* other escapes: outside the modelled grammar *)
      end
    else match m with
         | MBytes => if (128 <=? code c)%N then None else push [c] (lex_str m q t1)
         | MStr => push [c] (lex_str m q t1)
         end
  end.

(* ------------------------------------------------------------------ lexer: numbers, words *)

Fixpoint take_num (after_e : bool) (t : text) : text * text :=
  match t with
  | [] => ([], [])
  | c :: t' =>
    if is_digit c || ceq c "."%char then let (a, r) := take_num false t' in (c :: a, r)
    else if ceq c "e"%char || ceq c "E"%char then let (a, r) := take_num true t' in (c :: a, r)
    else if after_e && (ceq c "+"%char || ceq c "-"%char) then let (a, r) := take_num false t' in (c :: a, r)
    else ([], t)
  end.

Fixpoint span_digits (t : text) : text * text :=
  match t with
  | c :: t' => if is_digit c then let (a, r) := span_digits t' in (c :: a, r) else ([], t)
  | [] => ([], [])
  end.

Definition nonempty {A} (l : list A) : bool := match l with [] => false | _ => true end.

Definition valid_exp (r : text) : bool :=
  match r with
  | [] => false
  | s :: r' => if ceq s "+"%char || ceq s "-"%char then nonempty r' && forallb is_digit r'
               else forallb is_digit r
  end.

(* digits+ [ `.` digits* ] [ (e|E) [+-] digits+ ]  with a `.` or an exponent present *)
Definition valid_float (t : text) : bool :=
  let (ip, r1) := span_digits t in
  nonempty ip &&
  match r1 with
  | [] => false
  | c :: r2 =>
    if ceq c "."%char then
      let (fp, r3) := span_digits r2 in
      match r3 with
      | [] => true
      | e :: r4 => (ceq e "e"%char || ceq e "E"%char) && valid_exp r4
      end
    else (ceq c "e"%char || ceq c "E"%char) && valid_exp r2
  end.

Definition digit_ctor (c : ascii) : option (uint -> uint) :=
  if ceq c "0"%char then Some D0 else if ceq c "1"%char then Some D1
  else if ceq c "2"%char then Some D2 else if ceq c "3"%char then Some D3
  else if ceq c "4"%char then Some D4 else if ceq c "5"%char then Some D5
  else if ceq c "6"%char then Some D6 else if ceq c "7"%char then Some D7
  else if ceq c "8"%char then Some D8 else if ceq c "9"%char then Some D9
  else None.

Fixpoint uint_of_text (t : text) : option uint :=
  match t with
  | [] => Some Nil
  | c :: t' => match digit_ctor c, uint_of_text t' with
               | Some k, Some d => Some (k d)
               | _, _ => None
               end
  end.

Definition starts_ident (t : text) : bool := match t with c :: _ => is_ident c | [] => false end.

(* a number token at the head of [t] (which starts with a digit) *)
Definition pnum (t : text) : option (expr * text) :=
  let (run, r) := take_num false t in
  if starts_ident r then None                      (* 1j, 0x10, 1_000, 1if ... *)
  else if forallb is_digit run then
    match uint_of_text run with
    | Some d =>
      if uint_beq (unorm d) d || uint_beq (nzhead d) Nil      (* no leading zeros, except 0, 00, ... *)
      then Some (Const (CInt (Z.of_N (N.of_uint d))), r) else None
    | None => None
    end
  else if valid_float run then Some (Const (CFloat (string_of_list_ascii run)), r)
  else None.

Fixpoint take_ident (t : text) : text * text :=
  match t with
  | c :: t' => if is_ident c then let (a, r) := take_ident t' in (c :: a, r) else ([], t)
  | [] => ([], [])
  end.

Definition py_keywords : list string :=
  ["and"; "as"; "assert"; "async"; "await"; "break"; "class"; "continue"; "def"; "del"; "elif"; "else";
   "except"; "finally"; "for"; "from"; "global"; "if"; "import"; "in"; "is"; "lambda"; "nonlocal"; "not";
   "or"; "pass"; "raise"; "return"; "try"; "while"; "with"; "yield"; "match"; "case"; "type"; "print"; "exec";
   "__debug__"].

Definition starts_quote (t : text) : bool := match t with c :: _ => is_quote c | [] => false end.

Definition pword (t : text) : option (expr * text) :=
  let (w, r) := take_ident t in
  let s := string_of_list_ascii w in
  if String.eqb s "True" then Some (Const (CBool true), r)
  else if String.eqb s "False" then Some (Const (CBool false), r)
  else if String.eqb s "None" then Some (Const CNone, r)
  else if existsb (String.eqb s) py_keywords || negb (forallb (fun c => (code c <? 128)%N) w) then None
  else if starts_quote r then None            (* string prefixes r'..' u'..' f'..' rb'..' *)
  else Some (Name s, r).

Fixpoint skip_ws (t : text) : text :=
  match t with
  | c :: t' => if is_ws c then skip_ws t' else t
  | [] => []
  end.

(* ------------------------------------------------------------------ parser *)

(* [pval n t]: one expression of the literal sub-grammar at the head of [t]; fuel [n].
   [pitems n close t]: at a position where an element or the closing bracket is expected;
       returns the elements, whether the bracket followed a comma (or nothing), and the rest.
   [pdict n t]: the same for  key `:` value  entries up to `}`.
   The three bodies are written as non-recursive steps over the recursive calls. *)
Definition pres := option (expr * text).
Definition ires := option (list expr * bool * text).
Definition dres := option (list expr * list expr * text).

Definition pval_step (pv : text -> pres) (pi : ascii -> text -> ires) (pd : text -> dres) (t : text) : pres :=
  match skip_ws t with
  | [] => None
  | c :: t1 =>
    if is_quote c then
      match lex_str MStr c t1 with
      | Some (s, r) => Some (Const (CStr (string_of_list_ascii s)), r)
      | None => None
      end
    else if ceq c "b"%char && starts_quote t1 then
      match t1 with
      | q :: t2 =>
        match lex_str MBytes q t2 with
        | Some (s, r) => Some (Const (CBytes (string_of_list_ascii s)), r)
        | None => None
        end
      | [] => None
      end
    else if ceq c "-"%char then
      match pv t1 with
      | Some (e, r) => Some (UnaryOp USub e, r)
      | None => None
      end
    else if is_digit c then pnum (c :: t1)
    else if ceq c "["%char then
      match pi "]"%char t1 with
      | Some (es, _, r) => Some (List es, r)
      | None => None
      end
    else if ceq c "("%char then
      match pi ")"%char t1 with
      | Some (es, tr, r) =>
        match es, tr with
        | [e], false => Some (e, r)                       (* a parenthesised expression *)
        | _, _ => Some (Tuple es, r)
        end
      | None => None
      end
    else if ceq c "{"%char then
      match pd t1 with
      | Some (ks, vs, r) => Some (Dict ks vs, r)
      | None => None
      end
    else if is_alpha c then pword (c :: t1)
    else None
  end.

Definition pitems_step (pv : text -> pres) (pi : ascii -> text -> ires) (close : ascii) (t : text) : ires :=
  match skip_ws t with
  | [] => None
  | c :: t1 =>
    if ceq c close then Some ([], true, t1)
    else
      match pv (c :: t1) with
      | None => None
      | Some (e, r) =>
        match skip_ws r with
        | [] => None
        | d :: r1 =>
          if ceq d close then Some ([e], false, r1)
          else if ceq d ","%char then
            match pi close r1 with
            | Some (es, tr, r2) => Some (e :: es, tr, r2)
            | None => None
            end
          else None
        end
      end
  end.

Definition pdict_step (pv : text -> pres) (pd : text -> dres) (t : text) : dres :=
  match skip_ws t with
  | [] => None
  | c :: t1 =>
    if ceq c "}"%char then Some ([], [], t1)
    else
      match pv (c :: t1) with
      | None => None
      | Some (k, r) =>
        match skip_ws r with
        | [] => None
        | d :: r1 =>
          if ceq d ":"%char then
            match pv r1 with
            | None => None
            | Some (x, r2) =>
              match skip_ws r2 with
              | [] => None
              | d2 :: r3 =>
                if ceq d2 "}"%char then Some ([k], [x], r3)
                else if ceq d2 ","%char then
                  match pd r3 with
                  | Some (ks, vs, r4) => Some (k :: ks, x :: vs, r4)
                  | None => None
                  end
                else None
              end
            end
          else None                                        (* a set display {a, b}: not modelled *)
        end
      end
  end.

Fixpoint pval (n : nat) (t : text) {struct n} : pres :=
  match n with
  | O => None
  | S n' => pval_step (pval n') (pitems n') (pdict n') t
  end
with pitems (n : nat) (close : ascii) (t : text) {struct n} : ires :=
  match n with
  | O => None
  | S n' => pitems_step (pval n') (pitems n') close t
  end
with pdict (n : nat) (t : text) {struct n} : dres :=
  match n with
  | O => None
  | S n' => pdict_step (pval n') (pdict n') t
  end.

(* ast.parse(text) as used by as_ast: statement mode (leading blank = IndentationError), the first
   statement must be the whole text. *)
Definition parse_text (t : text) : option expr :=
  match t with
  | [] => None
  | c :: _ =>
    if is_ws c then None
    else
      let n := 2 * length t + 1 in
      match pval n t with
      | Some (e, r) =>
        match skip_ws r with
        | [] => Some e
        | d :: r1 =>
          (* one binary [+] between two literals: enough to exhibit, inside the model, a string that the
             unfixed code turns into code; every other continuation is outside the modelled grammar *)
          if ceq d "+"%char then
            match pval n r1 with
            | Some (e2, r2) => match skip_ws r2 with [] => Some (BinOp BAdd e e2) | _ :: _ => None end
            | None => None
            end
          else None
        end
      | None => None
      end
  end.

Definition parse_literal (s : string) : option expr := parse_text (list_ascii_of_string s).

(* ------------------------------------------------------------------ ast.literal_eval *)

Definition neg_tok (tok : string) : string :=
  match tok with
  | String c r => if ceq c "-"%char then r else String "-"%char tok
  | EmptyString => String "-"%char tok
  end.

Fixpoint literal_eval (e : expr) : option pyval :=
  match e with
  | Const (CStr s) => Some (PStr s)
  | Const (CBytes s) => Some (PBytes s)
  | Const (CInt z) => Some (PInt z)
  | Const (CBool b) => Some (PBool b)
  | Const CNone => Some PNone
  | Const (CFloat tok) => Some (PFloat tok)
  | UnaryOp USub (Const (CInt z)) => Some (PInt (- z))
  | UnaryOp USub (Const (CFloat tok)) => Some (PFloat (neg_tok tok))
  | UnaryOp UAdd (Const (CInt z)) => Some (PInt z)
  | UnaryOp UAdd (Const (CFloat tok)) => Some (PFloat tok)
  | List es => option_map PList (omap literal_eval es)
  | Tuple es => option_map PTuple (omap literal_eval es)
  | Dict ks vs =>
      if Nat.eqb (length ks) (length vs) then
        obind (omap literal_eval ks) (fun ks' => obind (omap literal_eval vs) (fun vs' =>
          Some (PDict (combine ks' vs'))))
      else None
  | _ => None                (* names, calls, operators ... : ValueError(`malformed node or string`) *)
  end.

(* the literal a value is expected to become (what ast.parse(repr(v)) builds) *)
Fixpoint lit_expr (v : pyval) : expr :=
  match v with
  | PStr s => Const (CStr s)
  | PBytes s => Const (CBytes s)
  | PInt z => match z with Zneg p => UnaryOp USub (Const (CInt (Zpos p))) | _ => Const (CInt z) end
  | PBool b => Const (CBool b)
  | PNone => Const CNone
  | PFloat tok =>
      match tok with
      | String c r => if ceq c "-"%char then UnaryOp USub (Const (CFloat r)) else Const (CFloat tok)
      | EmptyString => Const (CFloat tok)
      end
  | PList l => List (map lit_expr l)
  | PTuple l => Tuple (map lit_expr l)
  | PDict kvs => Dict (map (fun kv => match kv with (k, _) => lit_expr k end) kvs)
                      (map (fun kv => match kv with (_, x) => lit_expr x end) kvs)
  end.

(* ------------------------------------------------------------------ the values the property covers *)

Definition int_max_str_digits : nat := 4300.     (* CPython >= 3.11: str(int) / int literals beyond raise ValueError *)

Definition float_tok_ok (t : text) : bool :=
  let t' := match t with c :: r => if ceq c "-"%char then r else t | [] => t end in
  match t' with c :: _ => is_digit c | [] => false end
  && (let (_, r) := take_num false t' in match r with [] => true | _ :: _ => false end)
  && valid_float t'.

Fixpoint finite (v : pyval) : bool :=
  match v with
  | PStr _ | PBytes _ | PBool _ | PNone => true
  | PInt z => Nat.leb (length (repr_nat (Z.abs_N z))) int_max_str_digits
  | PFloat tok => float_tok_ok (list_ascii_of_string tok)
  | PList l | PTuple l => forallb finite l
  | PDict kvs => forallb (fun kv => match kv with (k, x) => finite k && finite x end) kvs
  end.

Fixpoint ints_ok (v : pyval) : bool :=
  match v with
  | PInt z => Nat.leb (length (repr_nat (Z.abs_N z))) int_max_str_digits
  | PList l | PTuple l => forallb ints_ok l
  | PDict kvs => forallb (fun kv => match kv with (k, x) => ints_ok k && ints_ok x end) kvs
  | _ => true
  end.

(* ------------------------------------------------------------------ util_ast.as_ast / as_literal *)

(* CPython's tokenizer refuses more than 200 open brackets (MAXLEVEL): `too many nested parentheses` *)
Definition max_nesting : nat := 200.

Fixpoint depth (v : pyval) : nat :=
  match v with
  | PList l | PTuple l => S (fold_right (fun x a => Nat.max (depth x) a) 0 l)
  | PDict kvs => S (fold_right (fun kv a => match kv with (k, x) => Nat.max (Nat.max (depth k) (depth x)) a end) 0 kvs)
  | _ => 0
  end.

(* the values the property covers and CPython can round-trip through source text at all *)
Definition embeddable (v : pyval) : bool := finite v && Nat.leb (depth v) max_nesting.

(* fixed code (fixes/F01.diff):  if isinstance(p_var, str): p_var = repr(p_var);  ast.parse(str(p_var))
   None: str(int) raises ValueError (too many digits) / ast.parse raises SyntaxError (too many nested brackets) *)
Definition as_ast (v : pyval) : option expr :=
  if ints_ok v && Nat.leb (depth v) max_nesting then parse_text (repr_t v) else None.

(* the pinned commit:  p_var = f`'{p_var}'`  *)
Definition as_ast_unfixed (v : pyval) : option expr :=
  match v with
  | PStr s => parse_text (c_sq :: list_ascii_of_string s ++ [c_sq])
  | _ => as_ast v
  end.

(* util_ast.as_literal: ast.Constant(value=p) for whatever object p is *)
Definition as_literal (c : const) : expr := Const c.

Definition const_of_scalar (v : pyval) : option const :=
  match v with
  | PStr s => Some (CStr s) | PBytes s => Some (CBytes s) | PInt z => Some (CInt z)
  | PBool b => Some (CBool b) | PNone => Some CNone | PFloat tok => Some (CFloat tok)
  | _ => None
  end.

(* ------------------------------------------------------------------ util_ast.check_ast *)

(* isinstance(value, g_legal_capture_types): bool is a subclass of int *)
Definition kind_legal (k : ckind) : bool :=
  existsb (ckind_eqb k) legal_const_kinds
  || (ckind_eqb k KBool && existsb (ckind_eqb KInt) legal_const_kinds).

Definition const_legal (c : const) : bool := kind_legal (kind_of_const c).

(* ConstantTypeChecker: true = returns, false = raises ValueError.  Only ast.Constant nodes are
   looked at; a raw value in a node slot and non-node field values are skipped by generic_visit. *)
Fixpoint check_ast (e : expr) : bool :=
  let all := fix all (l : list expr) : bool :=
               match l with [] => true | x :: xs => check_ast x && all xs end in
  match e with
  | Const c => const_legal c
  | Name _ | Raw _ => true
  | Attr v _ => check_ast v
  | Call f xs _ kv => check_ast f && all xs && all kv
  | Lambda _ b => check_ast b
  | UnaryOp _ x => check_ast x
  | BinOp _ x y => check_ast x && check_ast y
  | BoolOp _ xs => all xs
  | Compare x _ xs => check_ast x && all xs
  | IfExp c t f => check_ast c && check_ast t && check_ast f
  | Tuple xs | List xs => all xs
  | Dict ks vs => all ks && all vs
  | Subscript v s => check_ast v && check_ast s
  | ListComp x gs | GenExp x gs => check_ast x && all gs
  | CompFor t i fs _ => check_ast t && check_ast i && all fs
  | Other _ _ cs => all cs
  end.

(* every ast.Constant payload in the tree *)
Fixpoint consts (e : expr) : list const :=
  let cl := fix cl (l : list expr) : list const :=
              match l with [] => [] | x :: xs => consts x ++ cl xs end in
  match e with
  | Const c => [c]
  | Name _ | Raw _ => []
  | Attr v _ => consts v
  | Call f xs _ kv => consts f ++ cl xs ++ cl kv
  | Lambda _ b => consts b
  | UnaryOp _ x => consts x
  | BinOp _ x y => consts x ++ consts y
  | BoolOp _ xs => cl xs
  | Compare x _ xs => consts x ++ cl xs
  | IfExp c t f => consts c ++ consts t ++ consts f
  | Tuple xs | List xs => cl xs
  | Dict ks vs => cl ks ++ cl vs
  | Subscript v s => consts v ++ consts s
  | ListComp x gs | GenExp x gs => consts x ++ cl gs
  | CompFor t i fs _ => consts t ++ consts i ++ cl fs
  | Other _ _ cs => cl cs
  end.

(* the property's `transportable scalar type` (what qastle can put on the wire), fixed here by hand *)
Definition transportable (c : const) : Prop :=
  In (kind_of_const c) [KStr; KInt; KFloat; KBool; KComplex; KBytes; KModule].

(* ------------------------------------------------------------------ object_stream.py entry points *)

Fixpoint lookup (k : string) (env : list (string * pyval)) : option pyval :=
  match env with
  | [] => None
  | (k', v) :: env' => if String.eqb k k' then Some v else lookup k env'
  end.

(* function_call(node, [self._q_ast, as_ast(p1), ..., as_ast(pk)])  with p1..pk the parameter names of the row *)
Definition terminal_call (node : string) (lits : list string) (q : expr) (env : list (string * pyval)) : option expr :=
  option_map (fun es => function_call node (q :: es))
             (omap (fun nm => obind (lookup nm env) as_ast) lits).

Fixpoint find_terminal (meth : string) (tbl : list (string * string * list string)) : option (string * list string) :=
  match tbl with
  | [] => None
  | (m, node, lits) :: tbl' => if String.eqb m meth then Some (node, lits) else find_terminal meth tbl'
  end.

(* ObjectStream.As*(...) over the generated table Gen/TablesStream.v *)
Definition as_terminal (meth : string) (q : expr) (env : list (string * pyval)) : option expr :=
  match find_terminal meth terminals with
  | Some (node, lits) => terminal_call node lits q env
  | None => None
  end.

(* ObjectStream.MetaData(metadata) *)
Definition metadata_call (q : expr) (md : pyval) : option expr :=
  option_map (fun e => function_call "MetaData" [q; e]) (as_ast md).

(* the wire format the back ends read (qastle): node name and the order of its literal arguments *)
Definition wire_format : list (string * string * list string) :=
  [ ("AsPandasDF", "ResultPandasDF", ["columns"]);
    ("AsROOTTTree", "ResultTTree", ["columns"; "treename"; "filename"]);
    ("AsParquetFiles", "ResultParquet", ["columns"; "filename"]);
    ("AsAwkwardArray", "ResultAwkwardArray", ["columns"]) ].

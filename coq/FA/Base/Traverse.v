(* ast.NodeTransformer.generic_visit as a combinator: apply [f] to every child node, in
   ast.iter_fields order, rebuilding the same node.  [None] = the visitor raised.  *)
From FA.Base Require Import PyAst Value.

Definition map_children (f : expr -> option expr) (e : expr) : option expr :=
  match e with
  | Name _ | Const _ | Raw _ => Some e
  | Attr v a => obind (f v) (fun v' => Some (Attr v' a))
  | Call g args kwn kwv =>
      obind (f g) (fun g' => obind (omap f args) (fun args' => obind (omap f kwv) (fun kwv' =>
        Some (Call g' args' kwn kwv'))))
  | Lambda ps b => obind (f b) (fun b' => Some (Lambda ps b'))
  | UnaryOp o x => obind (f x) (fun x' => Some (UnaryOp o x'))
  | BinOp o l r => obind (f l) (fun l' => obind (f r) (fun r' => Some (BinOp o l' r')))
  | BoolOp o es => obind (omap f es) (fun es' => Some (BoolOp o es'))
  | Compare l ops rs => obind (f l) (fun l' => obind (omap f rs) (fun rs' => Some (Compare l' ops rs')))
  | IfExp c t x => obind (f c) (fun c' => obind (f t) (fun t' => obind (f x) (fun x' => Some (IfExp c' t' x'))))
  | Tuple es => obind (omap f es) (fun es' => Some (Tuple es'))
  | List es => obind (omap f es) (fun es' => Some (List es'))
  | Dict ks vs => obind (omap f ks) (fun ks' => obind (omap f vs) (fun vs' => Some (Dict ks' vs')))
  | Subscript v s => obind (f v) (fun v' => obind (f s) (fun s' => Some (Subscript v' s')))
  | ListComp x gs => obind (f x) (fun x' => obind (omap f gs) (fun gs' => Some (ListComp x' gs')))
  | GenExp x gs => obind (f x) (fun x' => obind (omap f gs) (fun gs' => Some (GenExp x' gs')))
  | CompFor t i ifs a =>
      obind (f t) (fun t' => obind (f i) (fun i' => obind (omap f ifs) (fun ifs' => Some (CompFor t' i' ifs' a))))
  | Other cls atoms cs => obind (omap f cs) (fun cs' => Some (Other cls atoms cs'))
  end.

(* the total variant, for visitors that cannot raise *)
Definition map_children_t (f : expr -> expr) (e : expr) : expr :=
  match e with
  | Name _ | Const _ | Raw _ => e
  | Attr v a => Attr (f v) a
  | Call g args kwn kwv => Call (f g) (map f args) kwn (map f kwv)
  | Lambda ps b => Lambda ps (f b)
  | UnaryOp o x => UnaryOp o (f x)
  | BinOp o l r => BinOp o (f l) (f r)
  | BoolOp o es => BoolOp o (map f es)
  | Compare l ops rs => Compare (f l) ops (map f rs)
  | IfExp c t x => IfExp (f c) (f t) (f x)
  | Tuple es => Tuple (map f es)
  | List es => List (map f es)
  | Dict ks vs => Dict (map f ks) (map f vs)
  | Subscript v s => Subscript (f v) (f s)
  | ListComp x gs => ListComp (f x) (map f gs)
  | GenExp x gs => GenExp (f x) (map f gs)
  | CompFor t i ifs a => CompFor (f t) (f i) (map f ifs) a
  | Other cls atoms cs => Other cls atoms (map f cs)
  end.

(* children of a node in the same order *)
Definition children (e : expr) : list expr :=
  match e with
  | Name _ | Const _ | Raw _ => []
  | Attr v _ => [v]
  | Call g args _ kwv => g :: args ++ kwv
  | Lambda _ b => [b]
  | UnaryOp _ x => [x]
  | BinOp _ l r => [l; r]
  | BoolOp _ es => es
  | Compare l _ rs => l :: rs
  | IfExp c t x => [c; t; x]
  | Tuple es | List es => es
  | Dict ks vs => ks ++ vs
  | Subscript v s => [v; s]
  | ListComp x gs | GenExp x gs => x :: gs
  | CompFor t i ifs _ => t :: i :: ifs
  | Other _ _ cs => cs
  end%list.

(* the node [e] with its children replaced, in order, by [cs] *)
Definition rebuild (e : expr) (cs : list expr) : expr :=
  match e with
  | Name _ | Const _ | Raw _ => e
  | Attr _ a => match cs with [v] => Attr v a | _ => e end
  | Call _ args kwn kwv =>
      match cs with
      | g :: r => Call g (firstn (length args) r) kwn (skipn (length args) r)
      | _ => e
      end
  | Lambda ps _ => match cs with [b] => Lambda ps b | _ => e end
  | UnaryOp o _ => match cs with [x] => UnaryOp o x | _ => e end
  | BinOp o _ _ => match cs with [l; r] => BinOp o l r | _ => e end
  | BoolOp o _ => BoolOp o cs
  | Compare _ ops _ => match cs with l :: rs => Compare l ops rs | _ => e end
  | IfExp _ _ _ => match cs with [c; t; x] => IfExp c t x | _ => e end
  | Tuple _ => Tuple cs
  | List _ => List cs
  | Dict ks _ => Dict (firstn (length ks) cs) (skipn (length ks) cs)
  | Subscript _ _ => match cs with [v; s] => Subscript v s | _ => e end
  | ListComp _ _ => match cs with x :: gs => ListComp x gs | _ => e end
  | GenExp _ _ => match cs with x :: gs => GenExp x gs | _ => e end
  | CompFor _ _ _ a => match cs with t :: i :: ifs => CompFor t i ifs a | _ => e end
  | Other cls atoms _ => Other cls atoms cs
  end.

(* Nested induction principle for [expr], and soundness of the boolean equalities. *)
From FA.Base Require Import PyAst.

Section ExprInd.
  Variable P : expr -> Prop.
  Hypothesis HName : forall id, P (Name id).
  Hypothesis HConst : forall c, P (Const c).
  Hypothesis HAttr : forall v a, P v -> P (Attr v a).
  Hypothesis HCall : forall f args kwn kwv,
      P f -> Forall P args -> Forall P kwv -> P (Call f args kwn kwv).
  Hypothesis HLambda : forall ps b, P b -> P (Lambda ps b).
  Hypothesis HUnaryOp : forall o e, P e -> P (UnaryOp o e).
  Hypothesis HBinOp : forall o l r, P l -> P r -> P (BinOp o l r).
  Hypothesis HBoolOp : forall o es, Forall P es -> P (BoolOp o es).
  Hypothesis HCompare : forall l ops rs, P l -> Forall P rs -> P (Compare l ops rs).
  Hypothesis HIfExp : forall c t f, P c -> P t -> P f -> P (IfExp c t f).
  Hypothesis HTuple : forall es, Forall P es -> P (Tuple es).
  Hypothesis HList : forall es, Forall P es -> P (List es).
  Hypothesis HDict : forall ks vs, Forall P ks -> Forall P vs -> P (Dict ks vs).
  Hypothesis HSubscript : forall v s, P v -> P s -> P (Subscript v s).
  Hypothesis HListComp : forall e gs, P e -> Forall P gs -> P (ListComp e gs).
  Hypothesis HGenExp : forall e gs, P e -> Forall P gs -> P (GenExp e gs).
  Hypothesis HCompFor : forall t i ifs a, P t -> P i -> Forall P ifs -> P (CompFor t i ifs a).
  Hypothesis HRaw : forall c, P (Raw c).
  Hypothesis HOther : forall cls atoms cs, Forall P cs -> P (Other cls atoms cs).

  Fixpoint expr_ind' (e : expr) : P e :=
    let all := fix all (l : list expr) : Forall P l :=
                 match l with
                 | [] => Forall_nil P
                 | x :: xs => Forall_cons x (expr_ind' x) (all xs)
                 end in
    match e with
    | Name id => HName id
    | Const c => HConst c
    | Attr v a => HAttr v a (expr_ind' v)
    | Call f args kwn kwv => HCall f args kwn kwv (expr_ind' f) (all args) (all kwv)
    | Lambda ps b => HLambda ps b (expr_ind' b)
    | UnaryOp o x => HUnaryOp o x (expr_ind' x)
    | BinOp o l r => HBinOp o l r (expr_ind' l) (expr_ind' r)
    | BoolOp o es => HBoolOp o es (all es)
    | Compare l ops rs => HCompare l ops rs (expr_ind' l) (all rs)
    | IfExp c t f => HIfExp c t f (expr_ind' c) (expr_ind' t) (expr_ind' f)
    | Tuple es => HTuple es (all es)
    | List es => HList es (all es)
    | Dict ks vs => HDict ks vs (all ks) (all vs)
    | Subscript v s => HSubscript v s (expr_ind' v) (expr_ind' s)
    | ListComp x gs => HListComp x gs (expr_ind' x) (all gs)
    | GenExp x gs => HGenExp x gs (expr_ind' x) (all gs)
    | CompFor t i ifs a => HCompFor t i ifs a (expr_ind' t) (expr_ind' i) (all ifs)
    | Raw c => HRaw c
    | Other cls atoms cs => HOther cls atoms cs (all cs)
    end.
End ExprInd.

(* ---------- boolean equalities decide equality ---------- *)

Lemma uop_eqb_eq a b : uop_eqb a b = true <-> a = b.
Proof. destruct a, b; simpl; split; congruence. Qed.
Lemma bop_eqb_eq a b : bop_eqb a b = true <-> a = b.
Proof. destruct a, b; simpl; split; congruence. Qed.
Lemma boolop_eqb_eq a b : boolop_eqb a b = true <-> a = b.
Proof. destruct a, b; simpl; split; congruence. Qed.
Lemma cmpop_eqb_eq a b : cmpop_eqb a b = true <-> a = b.
Proof. destruct a, b; simpl; split; congruence. Qed.

Lemma const_eqb_eq a b : const_eqb a b = true <-> a = b.
Proof.
  destruct a, b; simpl; split; intros H; try congruence; try reflexivity.
  - apply Z.eqb_eq in H; congruence.
  - inversion H; apply Z.eqb_refl.
  - apply Bool.eqb_prop in H; congruence.
  - inversion H; apply Bool.eqb_reflx.
  - apply String.eqb_eq in H; congruence.
  - inversion H; apply String.eqb_refl.
  - apply String.eqb_eq in H; congruence.
  - inversion H; apply String.eqb_refl.
  - apply String.eqb_eq in H; congruence.
  - inversion H; apply String.eqb_refl.
  - apply String.eqb_eq in H; congruence.
  - inversion H; apply String.eqb_refl.
  - apply andb_true_iff in H; destruct H as [H1 H2].
    apply String.eqb_eq in H1, H2; congruence.
  - inversion H; rewrite !String.eqb_refl; reflexivity.
Qed.

Lemma ostr_eqb_eq a b : ostr_eqb a b = true <-> a = b.
Proof.
  destruct a, b; simpl; split; intros H; try congruence.
  - apply String.eqb_eq in H; congruence.
  - inversion H; apply String.eqb_refl.
Qed.

Lemma list_eqb_eq {A} (eqb : A -> A -> bool) (l1 : list A) :
  Forall (fun x => forall y, eqb x y = true <-> x = y) l1 ->
  forall l2, list_eqb eqb l1 l2 = true <-> l1 = l2.
Proof.
  induction 1 as [|x xs Hx _ IH]; intros [|y ys]; simpl; split; intros H; try congruence.
  - apply andb_true_iff in H; destruct H as [H1 H2].
    apply Hx in H1; apply IH in H2; congruence.
  - inversion H; subst. apply andb_true_iff; split; [apply Hx | apply IH]; reflexivity.
Qed.

Lemma list_eqb_eq_all {A} (eqb : A -> A -> bool) :
  (forall x y, eqb x y = true <-> x = y) ->
  forall l1 l2, list_eqb eqb l1 l2 = true <-> l1 = l2.
Proof.
  intros H l1; apply list_eqb_eq; apply Forall_forall; intros x _ y; apply H.
Qed.

Lemma expr_eqb_eq : forall a b, expr_eqb a b = true <-> a = b.
Proof.
  induction a using expr_ind'; intros b; destruct b; simpl; split; intros HH;
    try congruence; try reflexivity;
    repeat match goal with
           | H : _ && _ = true |- _ => apply andb_true_iff in H; destruct H
           end;
    repeat match goal with
           | H : String.eqb _ _ = true |- _ => apply String.eqb_eq in H
           | H : const_eqb _ _ = true |- _ => apply const_eqb_eq in H
           | H : uop_eqb _ _ = true |- _ => apply uop_eqb_eq in H
           | H : bop_eqb _ _ = true |- _ => apply bop_eqb_eq in H
           | H : boolop_eqb _ _ = true |- _ => apply boolop_eqb_eq in H
           | H : Bool.eqb _ _ = true |- _ => apply Bool.eqb_prop in H
           | H : list_eqb String.eqb _ _ = true |- _ =>
               apply (list_eqb_eq_all _ String.eqb_eq) in H
           | H : list_eqb ostr_eqb _ _ = true |- _ =>
               apply (list_eqb_eq_all _ ostr_eqb_eq) in H
           | H : list_eqb cmpop_eqb _ _ = true |- _ =>
               apply (list_eqb_eq_all _ cmpop_eqb_eq) in H
           | H : list_eqb const_eqb _ _ = true |- _ =>
               apply (list_eqb_eq_all _ const_eqb_eq) in H
           | IH : Forall _ ?l, H : list_eqb expr_eqb ?l _ = true |- _ =>
               apply (list_eqb_eq _ _ IH) in H
           | IH : forall b, expr_eqb ?a b = true <-> ?a = b, H : expr_eqb ?a _ = true |- _ =>
               apply IH in H
           end;
    try (subst; reflexivity);
    try (inversion HH; subst; clear HH;
         repeat (apply andb_true_iff; split);
         try apply String.eqb_refl;
         try (apply const_eqb_eq; reflexivity);
         try (apply uop_eqb_eq; reflexivity);
         try (apply bop_eqb_eq; reflexivity);
         try (apply boolop_eqb_eq; reflexivity);
         try apply Bool.eqb_reflx;
         try (apply (list_eqb_eq_all _ String.eqb_eq); reflexivity);
         try (apply (list_eqb_eq_all _ ostr_eqb_eq); reflexivity);
         try (apply (list_eqb_eq_all _ cmpop_eqb_eq); reflexivity);
         try (apply (list_eqb_eq_all _ const_eqb_eq); reflexivity);
         try match goal with
             | IH : Forall _ ?l |- list_eqb expr_eqb ?l ?l = true =>
                 apply (list_eqb_eq _ _ IH); reflexivity
             | IH : forall b, expr_eqb ?a b = true <-> ?a = b |- expr_eqb ?a ?a = true =>
                 apply IH; reflexivity
             end).
Qed.

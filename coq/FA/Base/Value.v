(* First-order values of the query language and the Python operations on them. *)
From FA.Base Require Import PyAst.

Inductive value :=
 | VInt (z : Z)
 | VBool (b : bool)
 | VStr (s : string)
 | VNone
 | VTuple (l : list value)
 | VList (l : list value)            (* sequences: what Select/Where/SelectMany range over *)
 | VDict (ks vs : list value)        (* parallel lists, insertion order *)
 | VObj (id : N).                    (* opaque backend object *)

(* Python: bool is an int *)
Definition as_int (v : value) : option Z :=
  match v with
  | VInt z => Some z
  | VBool b => Some (if b then 1 else 0)%Z
  | _ => None
  end.

(* Python == restricted to first-order values; ints and bools compare numerically *)
Fixpoint veq (a b : value) {struct a} : bool :=
  let veqs := fix veqs (l1 l2 : list value) : bool :=
                match l1, l2 with
                | [], [] => true
                | x :: xs, y :: ys => veq x y && veqs xs ys
                | _, _ => false
                end in
  match a, b with
  | VInt x, VInt y => Z.eqb x y
  | VInt x, VBool y => Z.eqb x (if y then 1 else 0)
  | VBool x, VInt y => Z.eqb (if x then 1 else 0) y
  | VBool x, VBool y => Bool.eqb x y
  | VStr x, VStr y => String.eqb x y
  | VNone, VNone => true
  | VTuple x, VTuple y => veqs x y
  | VList x, VList y => veqs x y
  | VObj x, VObj y => N.eqb x y
  | _, _ => false          (* dicts are never compared by the models' queries *)
  end.

Definition truthy (v : value) : bool :=
  match v with
  | VInt z => negb (Z.eqb z 0)
  | VBool b => b
  | VStr s => negb (String.eqb s "")
  | VNone => false
  | VTuple l | VList l => match l with [] => false | _ => true end
  | VDict ks _ => match ks with [] => false | _ => true end
  | VObj _ => true
  end.

(* option-monadic helpers *)
Definition obind {A B} (o : option A) (f : A -> option B) : option B :=
  match o with Some a => f a | None => None end.

Fixpoint sequence {A} (l : list (option A)) : option (list A) :=
  match l with
  | [] => Some []
  | x :: xs => obind x (fun a => obind (sequence xs) (fun r => Some (a :: r)))
  end.

Definition omap {A B} (f : A -> option B) (l : list A) : option (list B) := sequence (map f l).

(* filter by an option-valued predicate, left to right, first error wins *)
Fixpoint ofilter {A} (p : A -> option bool) (l : list A) : option (list A) :=
  match l with
  | [] => Some []
  | x :: xs => obind (p x) (fun b => obind (ofilter p xs) (fun r => Some (if b then x :: r else r)))
  end.

Fixpoint ofold {A B} (f : A -> B -> option A) (l : list B) (a : A) : option A :=
  match l with
  | [] => Some a
  | x :: xs => obind (f a x) (fun a' => ofold f xs a')
  end.

(* Python indexing with negative indices *)
Definition py_index {A} (l : list A) (i : Z) : option A :=
  let n := Z.of_nat (length l) in
  if (0 <=? i)%Z then nth_error l (Z.to_nat i)
  else if (0 <=? n + i)%Z then nth_error l (Z.to_nat (n + i)) else None.

(* dictionary lookup, last matching key wins (Python's literal semantics) *)
Fixpoint dict_lookup (ks vs : list value) (k : value) : option value :=
  match ks, vs with
  | k' :: ks', v' :: vs' =>
      match dict_lookup ks' vs' k with
      | Some r => Some r
      | None => if veq k' k then Some v' else None
      end
  | _, _ => None
  end.

Definition arith (o : bop) (a b : value) : option value :=
  match o with
  | BAdd =>
      match a, b with
      | VStr x, VStr y => Some (VStr (x ++ y)%string)
      | VTuple x, VTuple y => Some (VTuple (x ++ y))
      | VList x, VList y => Some (VList (x ++ y))
      | _, _ => obind (as_int a) (fun x => obind (as_int b) (fun y => Some (VInt (x + y))))
      end
  | BSub => obind (as_int a) (fun x => obind (as_int b) (fun y => Some (VInt (x - y))))
  | BMult => obind (as_int a) (fun x => obind (as_int b) (fun y => Some (VInt (x * y))))
  | BFloorDiv => obind (as_int a) (fun x => obind (as_int b) (fun y =>
                  if Z.eqb y 0 then None else Some (VInt (x / y))))
  | BMod => obind (as_int a) (fun x => obind (as_int b) (fun y =>
                  if Z.eqb y 0 then None else Some (VInt (x mod y))))
  | _ => None
  end.

Definition compare1 (o : cmpop) (a b : value) : option bool :=
  match o with
  | CEq => Some (veq a b)
  | CNotEq => Some (negb (veq a b))
  | CLt => obind (as_int a) (fun x => obind (as_int b) (fun y => Some (x <? y)%Z))
  | CLtE => obind (as_int a) (fun x => obind (as_int b) (fun y => Some (x <=? y)%Z))
  | CGt => obind (as_int a) (fun x => obind (as_int b) (fun y => Some (x >? y)%Z))
  | CGtE => obind (as_int a) (fun x => obind (as_int b) (fun y => Some (x >=? y)%Z))
  | CIn => match b with
          | VList l | VTuple l => Some (existsb (fun y => veq y a) l)
          | _ => None
          end
  | CNotIn => match b with
             | VList l | VTuple l => Some (negb (existsb (fun y => veq y a) l))
             | _ => None
             end
  | CIs | CIsNot => None
  end.

Definition unary (o : uop) (a : value) : option value :=
  match o with
  | UNot => Some (VBool (negb (truthy a)))
  | USub => obind (as_int a) (fun x => Some (VInt (- x)))
  | UAdd => obind (as_int a) (fun x => Some (VInt x))
  | UInvert => obind (as_int a) (fun x => Some (VInt (- x - 1)))
  end.

Definition const_value (c : const) : option value :=
  match c with
  | CInt z => Some (VInt z)
  | CBool b => Some (VBool b)
  | CStr s => Some (VStr s)
  | CNone => Some VNone
  | _ => None
  end.

Definition subscript (v i : value) : option value :=
  match v with
  | VTuple l | VList l => obind (match i with VInt z => Some z | VBool b => Some (if b then 1 else 0)%Z | _ => None end)
                                (py_index l)
  | VDict ks vs => dict_lookup ks vs i
  | _ => None
  end.

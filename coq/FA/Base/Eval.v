(* Reference semantics of query expressions: ordinary LINQ/list semantics.

   Structurally recursive (no fuel).  Lambdas are not values: they are interpreted where the
   query language allows them - as the callee of an immediate call (Python's positional +
   keyword binding, call by value) and as function arguments of the sequence operators, in
   function form [Op(seq, ...)] or method form [seq.Op(...)].

   Everything a backend defines (attributes of opaque objects, non-operator methods, free
   functions) is a field of the [backend] record the semantics is parameterised by, so every
   theorem about [eval] is universally quantified over all backend interpretations and all
   datasets.  Any ill-typed step is [None]. *)
From FA.Base Require Import PyAst Value.

Record backend := {
  attr_sem : value -> string -> option value;
  meth_sem : value -> string -> list value -> list (string * value) -> option value;
  fun_sem  : string -> list value -> list (string * value) -> option value;
}.

Definition env := list (string * value).

Fixpoint lookup (x : string) (E : env) : option value :=
  match E with
  | [] => None
  | (y, v) :: E' => if String.eqb x y then Some v else lookup x E'
  end.

(* An operator argument seen three ways: as a value, as a 1-parameter lambda, as a 2-parameter lambda *)
Record aview := {
  av_val : option value;
  av_f1 : option (value -> option value);
  av_f2 : option (value -> value -> option value);
}.

Definition as_list (v : value) : option (list value) :=
  match v with VList l => Some l | _ => None end.

Definition sum_ints (l : list value) : option Z :=
  ofold (fun acc v => obind (as_int v) (fun z => Some (acc + z)%Z)) l 0%Z.

Definition strict_ints (l : list value) : option (list Z) :=
  omap (fun v => match v with VInt z => Some z | _ => None end) l.

(* func_adl's Max/Min convention: the maximum/minimum of the sequence with 0 added *)
Definition max0 (l : list value) : option Z := option_map (fun zs => fold_left Z.max zs 0%Z) (strict_ints l).
Definition min0 (l : list value) : option Z := option_map (fun zs => fold_left Z.min zs 0%Z) (strict_ints l).

(* [and]/[or]: left to right, returning the deciding operand *)
Definition boolop_sem (o : boolop) (ev : expr -> option value) : list expr -> option value :=
  fix go (es : list expr) : option value :=
    match es with
    | [] => None
    | x :: rest =>
        match rest with
        | [] => ev x
        | _ => obind (ev x) (fun v =>
                 match o with
                 | And => if truthy v then go rest else Some v
                 | Or => if truthy v then Some v else go rest
                 end)
        end
    end.

(* chained comparison [a < b <= c ...] with short circuit *)
Definition compare_sem (ev : expr -> option value) : value -> list cmpop -> list expr -> option value :=
  fix chain (prev : value) (cops : list cmpop) (rs : list expr) {struct rs} : option value :=
    match cops, rs with
    | [], [] => Some (VBool true)
    | o :: cops', r :: rs' =>
        obind (ev r) (fun rv =>
          obind (compare1 o prev rv) (fun b =>
            if b then chain rv cops' rs' else Some (VBool false)))
    | _, _ => None
    end.

(* the [if] clauses of a comprehension, left to right with short circuit *)
Definition conds_sem (ev : expr -> option value) : list expr -> option bool :=
  fix conds (ifs : list expr) : option bool :=
    match ifs with
    | [] => Some true
    | c :: ifs' => obind (ev c) (fun cv => if truthy cv then conds ifs' else Some false)
    end.

(* an operator argument, seen through an evaluator [ev] *)
Definition mk_view (ev : env -> expr -> option value) (E : env) (a : expr) : aview :=
  {| av_val := ev E a;
     av_f1 := match a with
              | Lambda [x] b => Some (fun v => ev ((x, v) :: E) b)
              | _ => None
              end;
     av_f2 := match a with
              | Lambda [x; y] b => Some (fun v w => ev ((y, w) :: (x, v) :: E) b)
              | _ => None
              end |}.

(* single-[for] comprehension: iterable in the outer scope, target local, [if]s left to right *)
Definition comp_sem (ev : env -> expr -> option value) (E : env) (elt : expr) (gs : list expr) : option value :=
  match gs with
  | [CompFor (Name x) it ifs false] =>
      obind (ev E it) (fun s => obind (as_list s) (fun l =>
        obind (ofilter (fun v => conds_sem (ev ((x, v) :: E)) ifs) l) (fun kept =>
          option_map VList (omap (fun v => ev ((x, v) :: E) elt) kept))))
  | _ => None
  end.

Section Sem.
  Variable B : backend.
  Variable ops : list string.     (* names that are operators in method form (C17's list) *)

  Definition is_op (m : string) : bool := existsb (String.eqb m) ops.

  (* Semantics of operator [op] applied to receiver [recv] and further arguments. *)
  Definition apply_op (op : string) (recv : option value) (args : list aview) : option value :=
    if String.eqb op "Select" then
      match args with
      | [a] => obind recv (fun s => obind (as_list s) (fun l => obind (av_f1 a) (fun f =>
                 option_map VList (omap f l))))
      | _ => None
      end
    else if String.eqb op "Where" then
      match args with
      | [a] => obind recv (fun s => obind (as_list s) (fun l => obind (av_f1 a) (fun f =>
                 option_map VList (ofilter (fun v => option_map truthy (f v)) l))))
      | _ => None
      end
    else if String.eqb op "SelectMany" then
      match args with
      | [a] => obind recv (fun s => obind (as_list s) (fun l => obind (av_f1 a) (fun f =>
                 obind (omap (fun v => obind (f v) as_list) l) (fun ls => Some (VList (concat ls))))))
      | _ => None
      end
    else if String.eqb op "First" then
      match args with
      | [] => obind recv (fun s => obind (as_list s) (fun l => hd_error l))
      | _ => None
      end
    else if String.eqb op "Count" || String.eqb op "len" then
      match args with
      | [] => obind recv (fun s => obind (as_list s) (fun l => Some (VInt (Z.of_nat (length l)))))
      | _ => None
      end
    else if String.eqb op "Sum" then
      match args with
      | [] => obind recv (fun s => obind (as_list s) (fun l => option_map VInt (sum_ints l)))
      | _ => None
      end
    else if String.eqb op "Max" then
      match args with
      | [] => obind recv (fun s => obind (as_list s) (fun l => option_map VInt (max0 l)))
      | _ => None
      end
    else if String.eqb op "Min" then
      match args with
      | [] => obind recv (fun s => obind (as_list s) (fun l => option_map VInt (min0 l)))
      | _ => None
      end
    else if String.eqb op "Aggregate" then
      match args with
      | [i; g] => obind recv (fun s => obind (as_list s) (fun l => obind (av_val i) (fun a0 =>
                    obind (av_f2 g) (fun f => ofold f l a0))))
      | _ => None
      end
    else
      obind recv (fun s => obind (sequence (map av_val args)) (fun vs => fun_sem B op (s :: vs) [])).

  (* Python binding of a call's arguments to positional parameters:
     positionals first, then keywords by name, every parameter bound exactly once. *)
  Fixpoint bind_kw (ps : list string) (kws : list (string * value)) : option env :=
    match ps with
    | [] => match kws with [] => Some [] | _ => None end
    | p :: ps' =>
        (* find exactly one keyword named p *)
        let hit := filter (fun kv => String.eqb (fst kv) p) kws in
        let rest := filter (fun kv => negb (String.eqb (fst kv) p)) kws in
        match hit with
        | [(_, v)] => option_map (fun E => (p, v) :: E) (bind_kw ps' rest)
        | _ => None
        end
    end.

  Fixpoint bind_args (ps : list string) (vals : list value) (kws : list (string * value)) : option env :=
    match ps, vals with
    | p :: ps', v :: vals' =>
        if existsb (fun kv => String.eqb (fst kv) p) kws then None   (* multiple values for p *)
        else option_map (fun E => (p, v) :: E) (bind_args ps' vals' kws)
    | [], _ :: _ => None
    | _, [] => bind_kw ps kws
    end.

  Fixpoint zip_kw (kwn : list (option string)) (vs : list value) : option (list (string * value)) :=
    match kwn, vs with
    | [], [] => Some []
    | Some k :: kwn', v :: vs' => option_map (cons (k, v)) (zip_kw kwn' vs')
    | _, _ => None
    end.

  Fixpoint eval (E : env) (e : expr) {struct e} : option value :=
    match e with
    | Name x => lookup x E
    | Const c => const_value c
    | Attr v a =>
        obind (eval E v) (fun r =>
          match r with
          | VDict ks vs => dict_lookup ks vs (VStr a)
          | _ => attr_sem B r a
          end)
    | Call f args kwn kwv =>
        match kwn with
        | [] =>
            match f with
            | Name op =>
                match args with
                | s :: rest => apply_op op (eval E s) (map (mk_view eval E) rest)
                | [] => fun_sem B op [] []
                end
            | Attr s m =>
                if is_op m then apply_op m (eval E s) (map (mk_view eval E) args)
                else obind (eval E s) (fun r => obind (omap (eval E) args) (fun vs => meth_sem B r m vs []))
            | Lambda ps b =>
                obind (omap (eval E) args) (fun vs =>
                  obind (bind_args ps vs []) (fun E' => eval (E' ++ E) b))
            | _ => None
            end
        | _ =>
            obind (omap (eval E) args) (fun vs =>
              obind (omap (eval E) kwv) (fun kvs =>
                obind (zip_kw kwn kvs) (fun kws =>
                  match f with
                  | Name fn => fun_sem B fn vs kws
                  | Attr s m => obind (eval E s) (fun r => meth_sem B r m vs kws)
                  | Lambda ps b => obind (bind_args ps vs kws) (fun E' => eval (E' ++ E) b)
                  | _ => None
                  end)))
        end
    | Lambda _ _ => None
    | UnaryOp o x => obind (eval E x) (unary o)
    | BinOp o l r => obind (eval E l) (fun a => obind (eval E r) (fun b => arith o a b))
    | BoolOp o es => boolop_sem o (eval E) es
    | Compare l cops rs => obind (eval E l) (fun lv => compare_sem (eval E) lv cops rs)
    | IfExp c t f => obind (eval E c) (fun cv => if truthy cv then eval E t else eval E f)
    | Tuple es => option_map VTuple (omap (eval E) es)
    | List es => option_map VList (omap (eval E) es)
    | Dict ks vs =>
        if Nat.eqb (length ks) (length vs) then
          obind (omap (eval E) ks) (fun kvs => obind (omap (eval E) vs) (fun vvs => Some (VDict kvs vvs)))
        else None
    | Subscript v s => obind (eval E v) (fun a => obind (eval E s) (fun i => subscript a i))
    | ListComp elt gs | GenExp elt gs => comp_sem eval E elt gs
    | CompFor _ _ _ _ => None
    | Raw _ => None
    | Other _ _ _ => None
    end.

  Definition view (E : env) : expr -> aview := mk_view eval E.

End Sem.

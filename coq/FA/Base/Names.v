(* Decimal rendering of numbers, and the library's reserved fresh-name space [arg_N]
   (function_simplifier.arg_name). *)
From Coq Require Import DecimalString DecimalNat DecimalZ DecimalFacts.
From FA.Base Require Import PyAst.

Definition z_to_string (z : Z) : string := NilZero.string_of_int (Z.to_int z).
Definition z_of_string (s : string) : option Z := option_map Z.of_int (NilZero.int_of_string s).
Definition nat_to_string (n : nat) : string := NilZero.string_of_uint (Nat.to_uint n).

Definition arg_name (n : nat) : string := ("arg_" ++ nat_to_string n)%string.

Lemma to_uint_nonnil n : Nat.to_uint n <> Decimal.Nil.
Proof.
  rewrite <- (DecimalNat.Unsigned.of_to n) at 1.
  rewrite DecimalNat.Unsigned.to_of. apply unorm_nonnil.
Qed.

Lemma nat_to_string_inj n m : nat_to_string n = nat_to_string m -> n = m.
Proof.
  unfold nat_to_string; intros H.
  apply (f_equal NilZero.uint_of_string) in H.
  rewrite !NilZero.usu in H by apply to_uint_nonnil.
  inversion H as [H']. apply DecimalNat.Unsigned.to_uint_inj; assumption.
Qed.

Lemma arg_name_inj n m : arg_name n = arg_name m -> n = m.
Proof.
  unfold arg_name; intros H. simpl in H. inversion H. apply nat_to_string_inj; assumption.
Qed.

(* Python expression trees as func_adl sees them.

   One inductive type, nested only through [list expr], so that a single
   nested induction principle (Induct.v) serves every model.

   - every [ast] node class the models do not name is an [Other] node:
     class name (+ field layout), atoms (non-node field values) and the child
     nodes in [ast.iter_fields] order.  A transformer that treats a node by
     [generic_visit] treats [Other] exactly the same way, so "changes nothing
     else" theorems range over all node classes.
   - [Raw c] is a raw Python value sitting in a slot where a node is required
     (what a malformed tree looks like), so that "emits a malformed node" is a
     statement about a value.
   - keyword arguments and dictionary entries are kept as two parallel lists,
     as Python's own [ast.Dict] does, to keep the nesting through [list] only.
   - comprehension clauses ([ast.comprehension]) are nodes like any other. *)

From Coq Require Export String List ZArith Bool.
Export ListNotations.
Open Scope string_scope.
Open Scope list_scope.   (* [++] is list append by default; string append is written [(_ ++ _)%string] *)

Inductive const :=
 | CInt (z : Z)
 | CBool (b : bool)
 | CStr (s : string)              (* UTF-8 bytes of the Python str *)
 | CBytes (s : string)
 | CNone
 | CEllipsis
 | CFloat (tok : string)          (* repr token; no model does float arithmetic *)
 | CComplex (tok : string)
 | CObj (kind : string) (id : string).   (* any other Python object captured by value:
                                             kind = "type" | "module" | "dataclass:<f1,f2>" | "namedtuple:<..>" | "enum" | "other" … *)

Inductive uop := UNot | USub | UAdd | UInvert.
Inductive bop := BAdd | BSub | BMult | BDiv | BFloorDiv | BMod | BPow
               | BLShift | BRShift | BBitOr | BBitXor | BBitAnd | BMatMult.
Inductive boolop := And | Or.
Inductive cmpop := CEq | CNotEq | CLt | CLtE | CGt | CGtE | CIs | CIsNot | CIn | CNotIn.

Inductive expr :=
 | Name (id : string)
 | Const (c : const)
 | Attr (v : expr) (a : string)
 | Call (f : expr) (args : list expr) (kwn : list (option string)) (kwv : list expr)
 | Lambda (ps : list string) (b : expr)        (* positional parameters only; any other
                                                   parameter kind makes the node an [Other] *)
 | UnaryOp (o : uop) (e : expr)
 | BinOp (o : bop) (l r : expr)
 | BoolOp (o : boolop) (es : list expr)
 | Compare (l : expr) (ops : list cmpop) (rs : list expr)
 | IfExp (c t f : expr)
 | Tuple (es : list expr)
 | List (es : list expr)
 | Dict (ks vs : list expr)                    (* no [**d] entries; those make an [Other] *)
 | Subscript (v s : expr)
 | ListComp (elt : expr) (gs : list expr)
 | GenExp (elt : expr) (gs : list expr)
 | CompFor (target iter : expr) (ifs : list expr) (is_async : bool)
 | Raw (c : const)
 | Other (cls : string) (atoms : list const) (cs : list expr).

(* Kind of a constant's Python value, as [isinstance] against util_ast.g_legal_capture_types sees it
   (the list of legal kinds itself is generated into Gen/Tables.v). *)
Inductive ckind := KStr | KInt | KFloat | KBool | KComplex | KBytes | KModule | KNone | KEllipsis | KOtherObj.

Definition ckind_eqb (a b : ckind) : bool :=
  match a, b with
  | KStr,KStr | KInt,KInt | KFloat,KFloat | KBool,KBool | KComplex,KComplex | KBytes,KBytes
  | KModule,KModule | KNone,KNone | KEllipsis,KEllipsis | KOtherObj,KOtherObj => true
  | _,_ => false end.

Definition kind_of_const (c : const) : ckind :=
  match c with
  | CInt _ => KInt | CBool _ => KBool | CStr _ => KStr | CBytes _ => KBytes
  | CNone => KNone | CEllipsis => KEllipsis | CFloat _ => KFloat | CComplex _ => KComplex
  | CObj k _ => if String.eqb k "module" then KModule else KOtherObj
  end.

(* ---------- decidable equality on the leaves ---------- *)

Definition uop_eqb (a b : uop) : bool :=
  match a, b with UNot,UNot | USub,USub | UAdd,UAdd | UInvert,UInvert => true | _,_ => false end.

Definition bop_eqb (a b : bop) : bool :=
  match a, b with
  | BAdd,BAdd | BSub,BSub | BMult,BMult | BDiv,BDiv | BFloorDiv,BFloorDiv | BMod,BMod | BPow,BPow
  | BLShift,BLShift | BRShift,BRShift | BBitOr,BBitOr | BBitXor,BBitXor | BBitAnd,BBitAnd
  | BMatMult,BMatMult => true
  | _,_ => false end.

Definition boolop_eqb (a b : boolop) : bool :=
  match a, b with And,And | Or,Or => true | _,_ => false end.

Definition cmpop_eqb (a b : cmpop) : bool :=
  match a, b with
  | CEq,CEq | CNotEq,CNotEq | CLt,CLt | CLtE,CLtE | CGt,CGt | CGtE,CGtE | CIs,CIs | CIsNot,CIsNot
  | CIn,CIn | CNotIn,CNotIn => true
  | _,_ => false end.

Definition const_eqb (a b : const) : bool :=
  match a, b with
  | CInt x, CInt y => Z.eqb x y
  | CBool x, CBool y => Bool.eqb x y
  | CStr x, CStr y => String.eqb x y
  | CBytes x, CBytes y => String.eqb x y
  | CNone, CNone => true
  | CEllipsis, CEllipsis => true
  | CFloat x, CFloat y => String.eqb x y
  | CComplex x, CComplex y => String.eqb x y
  | CObj k i, CObj k' i' => String.eqb k k' && String.eqb i i'
  | _, _ => false
  end.

Definition list_eqb {A} (eqb : A -> A -> bool) : list A -> list A -> bool :=
  fix go (l1 l2 : list A) : bool :=
    match l1, l2 with
    | [], [] => true
    | x :: xs, y :: ys => eqb x y && go xs ys
    | _, _ => false
    end.

Definition ostr_eqb (a b : option string) : bool :=
  match a, b with
  | None, None => true
  | Some x, Some y => String.eqb x y
  | _, _ => false
  end.

Fixpoint expr_eqb (a b : expr) {struct a} : bool :=
  match a, b with
  | Name x, Name y => String.eqb x y
  | Const c, Const d => const_eqb c d
  | Attr v x, Attr w y => expr_eqb v w && String.eqb x y
  | Call f xs kn kv, Call g ys kn' kv' =>
      expr_eqb f g && list_eqb expr_eqb xs ys && list_eqb ostr_eqb kn kn' && list_eqb expr_eqb kv kv'
  | Lambda ps x, Lambda qs y => list_eqb String.eqb ps qs && expr_eqb x y
  | UnaryOp o x, UnaryOp o' y => uop_eqb o o' && expr_eqb x y
  | BinOp o x1 x2, BinOp o' y1 y2 => bop_eqb o o' && expr_eqb x1 y1 && expr_eqb x2 y2
  | BoolOp o xs, BoolOp o' ys => boolop_eqb o o' && list_eqb expr_eqb xs ys
  | Compare x os xs, Compare y os' ys =>
      expr_eqb x y && list_eqb cmpop_eqb os os' && list_eqb expr_eqb xs ys
  | IfExp c t f, IfExp c' t' f' => expr_eqb c c' && expr_eqb t t' && expr_eqb f f'
  | Tuple xs, Tuple ys => list_eqb expr_eqb xs ys
  | List xs, List ys => list_eqb expr_eqb xs ys
  | Dict ks vs, Dict ks' vs' => list_eqb expr_eqb ks ks' && list_eqb expr_eqb vs vs'
  | Subscript v s, Subscript v' s' => expr_eqb v v' && expr_eqb s s'
  | ListComp e gs, ListComp e' gs' => expr_eqb e e' && list_eqb expr_eqb gs gs'
  | GenExp e gs, GenExp e' gs' => expr_eqb e e' && list_eqb expr_eqb gs gs'
  | CompFor t i fs a, CompFor t' i' fs' a' =>
      expr_eqb t t' && expr_eqb i i' && list_eqb expr_eqb fs fs' && Bool.eqb a a'
  | Raw c, Raw d => const_eqb c d
  | Other c ats cs, Other c' ats' cs' =>
      String.eqb c c' && list_eqb const_eqb ats ats' && list_eqb expr_eqb cs cs'
  | _, _ => false
  end.

(* ---------- small helpers shared by the models (util_ast.py) ---------- *)

(* util_ast.function_call *)
Definition function_call (name : string) (args : list expr) : expr :=
  Call (Name name) args [] [].

(* func_adl_ast_utils.is_call_of *)
Definition is_call_of (e : expr) (name : string) : bool :=
  match e with
  | Call (Name n) _ _ _ => String.eqb n name
  | _ => false
  end.

(* util_ast.lambda_build for a single name *)
Definition lambda_build (x : string) (b : expr) : expr := Lambda [x] b.

(* Size (number of constructors), used as fuel bound and in generators' statistics. *)
Fixpoint size (e : expr) : nat :=
  let sizes := fix sizes (l : list expr) : nat :=
                 match l with [] => 0 | x :: xs => size x + sizes xs end in
  match e with
  | Name _ | Const _ | Raw _ => 1
  | Attr v _ => S (size v)
  | Call f xs _ kv => S (size f + sizes xs + sizes kv)
  | Lambda _ b => S (size b)
  | UnaryOp _ x => S (size x)
  | BinOp _ x y => S (size x + size y)
  | BoolOp _ xs => S (sizes xs)
  | Compare x _ xs => S (size x + sizes xs)
  | IfExp c t f => S (size c + size t + size f)
  | Tuple xs | List xs => S (sizes xs)
  | Dict ks vs => S (sizes ks + sizes vs)
  | Subscript v s => S (size v + size s)
  | ListComp x gs | GenExp x gs => S (size x + sizes gs)
  | CompFor t i fs _ => S (size t + size i + sizes fs)
  | Other _ _ cs => S (sizes cs)
  end.

#!/bin/bash
# Offline build of the whole framework: generated tables, full .vo build of models/proofs/properties,
# extraction, OCaml driver.  Run once after a fresh restore; ./check rebuilds incrementally afterwards.
set -e
cd "$(dirname "$0")"
export PYTHONPATH="/repo:$(pwd)/harness:$(pwd)/harness/props"
export PYTHONHASHSEED=0
mkdir -p .work evidence replays ocaml/_gen
/venv/bin/python harness/sync_tables.py || true
cd coq
/venv/bin/python -c "import sys; sys.path.insert(0, \"../harness\"); import core; core.ensure_makefile()"
timeout 3000 make -k -j16 > ../.work/setup-make.log 2>&1 || { tail -30 ../.work/setup-make.log; echo "setup: some Coq files failed to build (see .work/setup-make.log)"; }
cd ..
/venv/bin/python - <<'PY'
import sys
sys.path.insert(0, "harness")
import core
print("driver built:", core.build_driver())
PY
echo "setup done"
